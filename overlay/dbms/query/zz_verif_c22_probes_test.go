// C22 fixed probes: small hand written databases and queries (results derivable by hand from the operator
// documentation) that are run through exactly the same configurations and oracle as the generated cases.
// They include the minimal forms of the defects the generated workload found, so those are re-established
// deterministically on every run, independent of the seed.
package query

import (
	"slices"

	. "github.com/apmckinlay/gsuneido/core"
	vk "github.com/apmckinlay/gsuneido/util/verifkit"
)

func vfMkTable(name string, cols []vfCol, keys [][]string, idxs [][]string, rows ...[]vfLit) *vfTable {
	t := &vfTable{name: name, cols: cols, keys: keys, idxs: idxs}
	for _, r := range rows {
		row := vfRow{}
		for i, c := range cols {
			row[c.name] = r[i].v
		}
		t.rows = append(t.rows, row)
	}
	return t
}

func vfNums(names ...string) []vfCol {
	l := make([]vfCol, len(names))
	for i, n := range names {
		l[i] = vfCol{n, vfNum}
	}
	return l
}

func vfInts(ns ...int) []vfLit {
	l := make([]vfLit, len(ns))
	for i, n := range ns {
		l[i] = vfInt(n)
	}
	return l
}

// vfHand fills in the static column info of a hand built tree from the model.
func vfHand(d *vfDB, n *vfNode) *vfNode {
	for _, s := range []*vfNode{n.src, n.src2, n.def} {
		if s != nil {
			vfHand(d, s)
		}
	}
	m := vfNewModel(d, false)
	n.rel = m.eval(n)
	n.out = nil
	for _, c := range n.rel.cols {
		k := vfNum
		if n.op == "summarize" {
			for i, op := range n.sops {
				if op == "list" && vfSumName(n.scols[i], op, n.sons[i]) == c {
					k = vfObj
				}
			}
		}
		n.out = append(n.out, vfCol{c, k})
	}
	return n
}

func vfT(name string) *vfNode { return &vfNode{op: "table", name: name} }
func vfSum(src *vfNode, by []string, wholeRow bool, ops ...string) *vfNode { // ops: "max k", "count"
	n := &vfNode{op: "summarize", src: src, cols: by, wholeRow: wholeRow}
	for _, o := range ops {
		op, on := o, ""
		if i := slices.Index([]byte(o), ' '); i >= 0 {
			op, on = o[:i], o[i+1:]
		}
		n.scols = append(n.scols, "")
		n.sops = append(n.sops, op)
		n.sons = append(n.sons, on)
	}
	return n
}
func vfProj(src *vfNode, cols ...string) *vfNode { return &vfNode{op: "project", src: src, cols: cols} }
func vfBin(op string, a, b *vfNode) *vfNode {
	n := &vfNode{op: op, src: a, src2: b}
	return n
}
func vfExt(src *vfNode, col string, e *vfExpr) *vfNode {
	return &vfNode{op: "extend", src: src, ecols: []string{col}, eexprs: []*vfExpr{e}}
}
func vfWhere(src *vfNode, e *vfExpr) *vfNode { return &vfNode{op: "where", src: src, expr: e} }

type vfProbe struct {
	name   string
	tables []*vfTable
	query  func() *vfNode
}

func vfC22ProbeList() []vfProbe {
	tk := func(name string, rows ...[]vfLit) *vfTable {
		return vfMkTable(name, vfNums("k", "a"), [][]string{{"k"}}, nil, rows...)
	}
	return []vfProbe{
		{"summarize-project", // (t summarize max k, count) project max_k  => one row {max_k: 2}
			[]*vfTable{tk("t", vfInts(1, 5), vfInts(2, 6))},
			func() *vfNode { return vfProj(vfSum(vfT("t"), nil, false, "max k", "count"), "max_k") }},
		{"summarize-project-times", // the same times another table with a column a: valid as written
			[]*vfTable{tk("t", vfInts(1, 5), vfInts(2, 6)), vfMkTable("u", vfNums("a", "z"), [][]string{{"z"}}, nil, vfInts(9, 1))},
			func() *vfNode {
				return vfBin("times", vfProj(vfSum(vfT("t"), nil, false, "max k", "count"), "max_k"), vfT("u"))
			}},
		{"summarize-min-join", // (t summarize min k) join u: the record of min k (k=1) has no partner in u => empty
			[]*vfTable{tk("t", vfInts(1, 5), vfInts(2, 6)), vfMkTable("u", vfNums("k", "z"), [][]string{{"z"}}, nil, vfInts(2, 1))},
			func() *vfNode { return vfBin("join", vfSum(vfT("t"), nil, true, "min k"), vfT("u")) }},
		{"project-none-over-project-map", // (t project a extend e = 1) project e => one row {e: 1}
			[]*vfTable{tk("t", vfInts(1, 5), vfInts(2, 5))},
			func() *vfNode { return vfProj(vfExt(vfProj(vfT("t"), "a"), "e", vfConst(vfInt(1))), "e") }},
		{"leftjoin-semijoin-singleton", // t2 leftjoin (s semijoin t1), s has key()
			[]*vfTable{vfMkTable("s", vfNums("e", "h"), [][]string{{}}, nil, vfInts(1, 2)),
				vfMkTable("t1", vfNums("e", "f"), [][]string{{"f"}}, nil, vfInts(1, 1), vfInts(1, 2)),
				vfMkTable("t2", vfNums("e", "d"), [][]string{{"e"}}, nil, vfInts(1, 7), vfInts(2, 8))},
			func() *vfNode { return vfBin("leftjoin", vfT("t2"), vfBin("semijoin", vfT("s"), vfT("t1"))) }},
		{"summarize-record-project", // (t summarize min k) project a => {a: 5}, the a of the record with the smallest k
			[]*vfTable{tk("t", vfInts(1, 5), vfInts(2, 6))},
			func() *vfNode { return vfProj(vfSum(vfT("t"), nil, true, "min k"), "a") }},
		{"where-in-empty-on-composite-index", // t where h in (1,2) and b in ("", "A") and k > 0 => the row once
			[]*vfTable{vfMkTable("t", []vfCol{{"k", vfNum}, {"h", vfNum}, {"b", vfStr}, {"a", vfNum}}, [][]string{{"k"}}, [][]string{{"h", "b", "a"}},
				[]vfLit{vfInt(1), vfInt(1), vfS("A"), vfInt(5)}, []vfLit{vfInt(2), vfInt(1), vfS("B"), vfInt(6)})},
			func() *vfNode {
				return vfWhere(vfT("t"), vfOp("and",
					vfOp("in", vfColRef("h"), vfConst(vfInt(1)), vfConst(vfInt(2))),
					vfOp("in", vfColRef("b"), vfConst(vfEmptyLit), vfConst(vfS("A"))),
					vfOp("gt", vfColRef("k"), vfConst(vfInt(0)))))
			}},
		{"leftjoin-disjoint-union-lookup", // x leftjoin ((t where a is 1) union (t where a is 2))
			[]*vfTable{vfMkTable("t", vfNums("k", "a", "b"), [][]string{{"k"}}, [][]string{{"b"}}, vfInts(1, 1, 5), vfInts(2, 2, 5), vfInts(3, 3, 6)),
				vfMkTable("x", vfNums("k", "a", "b", "z"), [][]string{{"z"}}, nil, vfInts(1, 1, 5, 1), vfInts(3, 3, 6, 2))},
			func() *vfNode {
				w := func(n int) *vfNode { return vfWhere(vfT("t"), vfOp("is", vfColRef("a"), vfConst(vfInt(n)))) }
				return vfBin("leftjoin", vfT("x"), vfBin("union", w(1), w(2)))
			}},
		{"where-or-empty-range", // t where a > 1 or (a > 5 and a < 5) => both rows (the second operand selects nothing)
			[]*vfTable{tk("t", vfInts(1, 3), vfInts(2, 7))},
			func() *vfNode {
				rng := vfOp("and", vfOp("gt", vfColRef("a"), vfConst(vfInt(5))), vfOp("lt", vfColRef("a"), vfConst(vfInt(5))))
				return vfWhere(vfT("t"), vfOp("or", vfOp("gt", vfColRef("a"), vfConst(vfInt(1))), rng))
			}},
		{"leftjoin-intersect-singleton", // x leftjoin ((t3 intersect t5) extend g = -1), t5 has key()
			[]*vfTable{vfMkTable("t3", vfNums("m", "a"), [][]string{{"m"}}, nil, vfInts(1, 1), vfInts(2, 2)),
				vfMkTable("t5", vfNums("m", "a"), [][]string{{}}, nil, vfInts(1, 1)),
				vfMkTable("x", vfNums("g", "z"), [][]string{{"z"}}, nil, vfInts(-1, 1), vfInts(5, 2))},
			func() *vfNode {
				return vfBin("leftjoin", vfT("x"), vfExt(vfBin("intersect", vfT("t3"), vfT("t5")), "g", vfConst(vfInt(-1))))
			}},
		// a few healthy ones: documented examples in small
		{"leftjoin-where-right-is-empty", // rows without partner have "" on the right: where z is "" keeps exactly them
			[]*vfTable{tk("t", vfInts(1, 5), vfInts(2, 6)), vfMkTable("u", vfNums("k", "z"), [][]string{{"k"}}, nil, vfInts(2, 1))},
			func() *vfNode {
				return vfWhere(vfBin("leftjoin", vfT("t"), vfT("u")), vfOp("is", vfColRef("z"), vfConst(vfEmptyLit)))
			}},
		{"union-dedup",
			[]*vfTable{tk("t", vfInts(1, 5), vfInts(2, 6)), tk("u", vfInts(2, 6), vfInts(3, 7))},
			func() *vfNode { return vfBin("union", vfT("t"), vfT("u")) }},
		{"summarize-empty-input", // no rows in, no rows out, also without by
			[]*vfTable{tk("t")},
			func() *vfNode { return vfSum(vfT("t"), nil, false, "count", "total a") }},
	}
}

func vfC22Probes(rep *vk.Report, th *Thread) {
	probes := vfC22ProbeList()
	// x semijoin by(h) y sort e: 30 rows in x, 2 in y, so that the reversed strategy is the cheap one
	var xrows [][]vfLit
	for i := 0; i < 30; i++ {
		xrows = append(xrows, vfInts(i, i%3, 100-i))
	}
	probes = append(probes, vfProbe{"semijoin-by-sort", []*vfTable{
		vfMkTable("x", vfNums("k", "h", "e"), [][]string{{"k"}}, [][]string{{"h"}}, xrows...),
		vfMkTable("y", vfNums("h", "e", "z"), [][]string{{"z"}}, [][]string{{"e"}}, vfInts(1, 1, 1), vfInts(2, 0, 2))},
		func() *vfNode {
			n := vfBin("semijoin", vfT("x"), vfT("y"))
			n.cols, n.printBy = []string{"h"}, true
			return n
		}})
	probes = append(probes, vfProbe{"sort-negative-decimals", []*vfTable{ // t sort a with a = -97.5, -97, -98
		vfMkTable("t", vfNums("k", "a"), [][]string{{"k"}}, nil, []vfLit{vfInt(1), vfDec("-97.5")}, []vfLit{vfInt(2), vfInt(-97)}, []vfLit{vfInt(3), vfInt(-98)})},
		func() *vfNode { return vfT("t") }})
	for i, p := range probes {
		d := &vfDB{tables: p.tables}
		d.create(vk.RandFor(2201, i))
		root := vfHand(d, p.query())
		rep.Count("probes", 1)
		q := &vfQuery{root: root}
		if p.name == "semijoin-by-sort" {
			q.sort = []string{"e"}
		}
		if p.name == "sort-negative-decimals" {
			q.sort = []string{"a"}
		}
		vfC22Check(rep, d, -1-i, -1-i, q, vk.RandFor(2202, i), 10, th)
		d.close()
	}
}
