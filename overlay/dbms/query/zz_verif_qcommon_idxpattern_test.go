// Index-aware query shapes, used by C22 and C23 for a share of their cases: a restriction of the LEADING column(s)
// of a composite index or key to several values that occur (in-list, or-chain), to one value, or to a range,
// followed by an operator that can exploit the order or grouping of the FOLLOWING index column (project,
// summarize by, sort, join by). This is where "the index delivers the order/grouping for free" reasoning of an
// optimizer goes wrong when a fixed column is not single-valued; random predicates over random columns hardly
// ever line up with an index this way.
package query

import (
	"math/rand/v2"
	"slices"
)

// vfGenIndexQuery returns nil when the database has no suitable composite index.
func vfGenIndexQuery(d *vfDB, r *rand.Rand) (q *vfQuery) {
	defer func() {
		if e := recover(); e != nil {
			if _, ok := e.(vfTooBig); ok {
				q = nil
				return
			}
			panic(e)
		}
	}()
	g := vfNewGen(r, d)
	type cand struct {
		t  *vfTable
		ix []string
	}
	var cands []cand
	for _, t := range d.tables {
		for _, ix := range append(slices.Clone(t.keys), t.idxs...) {
			if len(ix) >= 2 {
				cands = append(cands, cand{t, ix})
			}
		}
	}
	if len(cands) == 0 {
		return nil
	}
	c := vfPick(r, cands)
	t, ix := c.t, c.ix
	lead := ix[0]
	// distinct values of the leading column that occur and have literal text
	var vals []vfLit
	seen := map[string]bool{}
	for _, row := range t.rows {
		v := row[lead]
		if v == nil {
			continue
		}
		l, ok := vfLitOf(v)
		if !ok || seen[l.text] {
			continue
		}
		seen[l.text] = true
		vals = append(vals, l)
	}
	if len(vals) == 0 {
		return nil
	}
	r.Shuffle(len(vals), func(i, j int) { vals[i], vals[j] = vals[j], vals[i] })
	k := min(len(vals), 1+r.IntN(3))
	if len(vals) >= 2 && r.IntN(4) != 0 {
		k = min(len(vals), 2+r.IntN(2))
	}
	col := vfColRef(lead)
	var pred *vfExpr
	switch x := r.IntN(10); {
	case k == 1:
		pred = vfOp("is", col, vfConst(vals[0]))
	case x < 6:
		args := []*vfExpr{col}
		for _, l := range vals[:k] {
			args = append(args, vfConst(l))
		}
		pred = vfOp("in", args...)
	case x < 8:
		var terms []*vfExpr
		for _, l := range vals[:k] {
			terms = append(terms, vfOp("is", vfColRef(lead), vfConst(l)))
		}
		pred = vfOp("or", terms...)
	default:
		lo, hi := vals[0], vals[1]
		if lo.v.Compare(hi.v) > 0 {
			lo, hi = hi, lo
		}
		pred = vfOp("and", vfOp("gte", vfColRef(lead), vfConst(lo)), vfOp("lte", vfColRef(lead), vfConst(hi)))
	}
	src := g.tableNode(t)
	if r.IntN(5) == 0 && len(t.cols) > 2 {
		// a second, unrelated term
		eg := g.exprGen(src)
		pred = vfOp("and", pred, eg.pred(1))
	}
	n := g.finish(&vfNode{op: "where", src: src, expr: pred, out: src.out})
	next := ix[1:]
	q = &vfQuery{}
	switch x := r.IntN(10); {
	case x < 3: // project on the following index column(s)
		pc := slices.Clone(next[:1+r.IntN(len(next))])
		out := make([]vfCol, len(pc))
		for i, cn := range pc {
			out[i], _ = vfFindCol(n.out, cn)
		}
		n = g.finish(&vfNode{op: "project", src: n, cols: pc, out: out})
	case x < 6: // summarize by the following index column
		by := next[0]
		bc, _ := vfFindCol(n.out, by)
		if bc.kind == vfObj || by == "count" {
			return nil
		}
		sn := &vfNode{op: "summarize", src: n, cols: []string{by}, scols: []string{""}, sops: []string{"count"}, sons: []string{""}}
		cn := ""
		if slices.Contains(vfColNames(n.out), "count") {
			cn = g.fresh("s")
			sn.scols[0] = cn
		}
		sn.out = []vfCol{bc, {vfSumName(cn, "count", ""), vfNum}}
		n = g.finish(sn)
	case x < 9: // sort by the following index column(s)
		sc := vfColNames(vfScalarCols(n.out))
		for _, cn := range next {
			if slices.Contains(sc, cn) {
				q.sort = append(q.sort, cn)
			}
		}
		if len(q.sort) > 1 && r.IntN(2) == 0 {
			q.sort = q.sort[:1]
		}
		q.reverse = r.IntN(3) == 0
	default: // as it is (the configurations add order/group/unique requirements)
	}
	q.root = n
	return q
}

// vfGenFixedNonNumberQuery: a where that does arithmetic on a column which an extend (or a leftjoin with a source that
// cannot have rows) fixes to "" or false - both are zero in arithmetic, so the query is valid - optionally below a
// project / sort. The optimizer substitutes fixed values into the predicate when it moves the where.
func vfGenFixedNonNumberQuery(d *vfDB, r *rand.Rand) (q *vfQuery) {
	defer func() {
		if e := recover(); e != nil {
			if _, ok := e.(vfTooBig); ok {
				q = nil
				return
			}
			panic(e)
		}
	}()
	g := vfNewGen(r, d)
	t := vfPick(r, d.tables)
	src := g.tableNode(t)
	name := g.newName(vfNum, vfColNames(src.out))
	lit := vfS("")
	if r.IntN(3) == 0 {
		lit = vfBoolDom[1] // false
	}
	ext := g.finish(&vfNode{op: "extend", src: src, out: append(slices.Clone(src.out), vfCol{name, vfNum}),
		ecols: []string{name}, eexprs: []*vfExpr{vfConst(lit)}})
	x := vfColRef(name)
	var lhs *vfExpr
	switch r.IntN(4) {
	case 0:
		lhs = vfOp("add", vfConst(vfInt(1)), x)
	case 1:
		lhs = vfOp("neg", x)
	case 2:
		lhs = vfOp("mul", vfOp("add", x, vfConst(vfInt(2))), vfConst(vfInt(3)))
	default:
		lhs = vfOp("sub", x, vfConst(vfInt(1)))
	}
	pred := vfOp(vfPick(r, []string{"lte", "gte", "is", "isnt"}), lhs, vfConst(vfInt(r.IntN(4))))
	if nums := g.exprGen(ext).colsOf(vfNum); len(nums) > 1 && r.IntN(2) == 0 {
		pred = vfOp("and", pred, vfOp("gte", vfOp("add", x, vfColRef(vfPick(r, nums).name)), vfConst(vfInt(0))))
	}
	n := g.finish(&vfNode{op: "where", src: ext, expr: pred, out: ext.out})
	return &vfQuery{root: n}
}

// vfGenFixedKeyLookupQuery: (U project m) join ((U project m) leftjoin U) where e is V, for a table U with a two-column
// key (e, m). The where result has key (m) only because e is fixed, while the leftjoin below it is read through an index on
// m alone, so a parent that looks rows up by m relies on the where to find the one row among several source rows.
func vfGenFixedKeyLookupQuery(d *vfDB, r *rand.Rand) (q *vfQuery) {
	defer func() {
		if e := recover(); e != nil {
			if _, ok := e.(vfTooBig); ok {
				q = nil
				return
			}
			panic(e)
		}
	}()
	g := vfNewGen(r, d)
	type cand struct {
		t    *vfTable
		e, m string
	}
	var cands []cand
	for _, t := range d.tables {
		for _, k := range t.keys {
			if len(k) == 2 {
				cands = append(cands, cand{t, k[0], k[1]}, cand{t, k[1], k[0]})
			}
		}
	}
	if len(cands) == 0 {
		return nil
	}
	c := vfPick(r, cands)
	mc, ok := vfFindCol(c.t.cols, c.m)
	if !ok || mc.kind == vfObj {
		return nil
	}
	// a value of e: one that occurs, or "" (which a leftjoin also produces for unmatched rows)
	lit := vfS("")
	if len(c.t.rows) > 0 && r.IntN(3) != 0 {
		if l, ok := vfLitOf(c.t.rows[r.IntN(len(c.t.rows))][c.e]); ok {
			lit = l
		}
	}
	proj := func() *vfNode {
		return g.finish(&vfNode{op: "project", src: g.tableNode(c.t), cols: []string{c.m}, out: []vfCol{mc}})
	}
	p2 := proj()
	u := g.tableNode(c.t)
	lj := &vfNode{op: "leftjoin", src: p2, src2: u, cols: []string{c.m}, out: slices.Clone(p2.out)}
	for _, col := range u.out {
		if col.name != c.m {
			lj.out = append(lj.out, col)
		}
	}
	lj = g.finish(lj)
	w := g.finish(&vfNode{op: "where", src: lj, expr: vfOp("is", vfColRef(c.e), vfConst(lit)), out: lj.out})
	p1 := proj()
	j := &vfNode{op: "join", src: p1, src2: w, cols: []string{c.m}, out: slices.Clone(p1.out)}
	for _, col := range w.out {
		if col.name != c.m {
			j.out = append(j.out, col)
		}
	}
	return &vfQuery{root: g.finish(j)}
}
