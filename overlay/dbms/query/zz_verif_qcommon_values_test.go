// Shared by the C22-C25 monitors: value domains, random databases (model + real heap database).
// Everything here is harness code compiled into package query through the overlay; names use the vf prefix.
package query

import (
	"fmt"
	"math/rand/v2"
	"slices"
	"strconv"
	"strings"

	. "github.com/apmckinlay/gsuneido/core"
	"github.com/apmckinlay/gsuneido/db19"
	"github.com/apmckinlay/gsuneido/db19/stor"
	"github.com/apmckinlay/gsuneido/util/dnum"
)

type vfKind int

const (
	vfNum vfKind = iota
	vfStr
	vfDate
	vfBool
	vfMixed
	vfObj // summarize list results: only equality of whole rows is meaningful, never compared or ordered
)

func (k vfKind) String() string {
	return [...]string{"num", "str", "date", "bool", "mixed", "obj"}[k]
}

// vfScalarCols drops the object valued columns (not usable in expressions, sort or order requirements).
func vfScalarCols(cols []vfCol) []vfCol {
	var l []vfCol
	for _, c := range cols {
		if c.kind != vfObj {
			l = append(l, c)
		}
	}
	return l
}

// vfLit is a value together with the source text the generator prints for it.
type vfLit struct {
	v    Value
	text string
}

func vfInt(n int) vfLit { return vfLit{IntVal(n), strconv.Itoa(n)} }
func vfDec(s string) vfLit {
	return vfLit{SuDnum{Dnum: dnum.FromStr(s)}, s}
}
func vfS(s string) vfLit {
	if strings.ContainsAny(s, "\"\\") {
		panic("vfS: unsupported char")
	}
	return vfLit{SuStr(s), `"` + s + `"`}
}
func vfD(y, m, d, hh, mm int) vfLit {
	t := fmt.Sprintf("#%04d%02d%02d", y, m, d)
	if hh != 0 || mm != 0 {
		t += fmt.Sprintf(".%02d%02d", hh, mm)
	}
	return vfLit{NewDate(y, m, d, hh, mm, 0, 0), t}
}

var vfEmptyLit = vfLit{EmptyStr, `""`}

var (
	vfNumSmall []vfLit
	vfNumWide  []vfLit
	vfStrDom   []vfLit
	vfDateDom  []vfLit
	vfBoolDom  = []vfLit{{True, "true"}, {False, "false"}}
	vfMixedDom []vfLit
)

func init() {
	for n := -2; n <= 9; n++ {
		vfNumSmall = append(vfNumSmall, vfInt(n), vfInt(n)) // weighted
	}
	vfNumSmall = append(vfNumSmall, vfInt(10), vfInt(11), vfInt(12), vfInt(100), vfInt(1000000),
		vfDec("1.5"), vfDec("2.5"), vfDec("-1.5"), vfDec(".5"), vfInt(70000))
	for n := 0; n <= 45; n++ {
		vfNumWide = append(vfNumWide, vfInt(n))
	}
	vfNumWide = append(vfNumWide, vfDec("1.5"), vfDec("2.5"), vfInt(-1), vfInt(-2), vfInt(100))
	for _, s := range []string{"a", "b", "c", "ab", "abc", "A", "B", "Ab", "z", "a b", "it's", "b1", "b2", "b10"} {
		vfStrDom = append(vfStrDom, vfS(s))
	}
	vfStrDom = append(vfStrDom, vfEmptyLit)
	for d := 1; d <= 9; d++ {
		vfDateDom = append(vfDateDom, vfD(2001, 1, d, 0, 0))
	}
	vfDateDom = append(vfDateDom, vfD(2001, 1, 1, 12, 30), vfD(1999, 12, 31, 0, 0))
	vfMixedDom = append(vfMixedDom, vfInt(0), vfInt(1), vfInt(2), vfInt(-1), vfDec("1.5"), vfS("a"), vfS("b"), vfS("1"),
		vfEmptyLit, vfD(2001, 1, 1, 0, 0), vfD(2001, 1, 2, 0, 0), vfLit{True, "true"}, vfLit{False, "false"}, vfS("A"))
}

func vfDomain(k vfKind) []vfLit {
	switch k {
	case vfNum:
		return vfNumSmall
	case vfStr:
		return vfStrDom
	case vfDate:
		return vfDateDom
	case vfBool:
		return vfBoolDom
	}
	return vfMixedDom
}

func vfPick[E any](r *rand.Rand, l []E) E { return l[r.IntN(len(l))] }

// vfLitOf finds source text for a value that came from the data (all data values come from the domains).
func vfLitOf(v Value) (vfLit, bool) {
	if vfLitMap == nil {
		vfLitMap = map[string]vfLit{}
		for _, dom := range [][]vfLit{vfNumSmall, vfNumWide, vfStrDom, vfDateDom, vfBoolDom, vfMixedDom} {
			for _, l := range dom {
				if _, ok := vfLitMap[vfPack(l.v)]; !ok {
					vfLitMap[vfPack(l.v)] = l
				}
			}
		}
	}
	l, ok := vfLitMap[vfPack(v)]
	return l, ok
}

var vfLitMap map[string]vfLit

// vfPack is the canonical identity of a value (trusted base: core.Pack, monitored by C13).
func vfPack(v Value) string { return Pack(v.(Packable)) }

func vfSame(x, y Value) bool { return vfPack(x) == vfPack(y) }

func vfIsEmpty(v Value) bool { return vfPack(v) == "" }

func vfIsString(v Value) bool {
	p := vfPack(v)
	return p == "" || p[0] == PackString
}

// vfNorm is what storing a computed value in a record does to it.
func vfNorm(v Value) Value { return Unpack(vfPack(v)) }

//-------------------------------------------------------------------

type vfCol struct {
	name string
	kind vfKind
}

func vfColNames(cols []vfCol) []string {
	l := make([]string, len(cols))
	for i, c := range cols {
		l[i] = c.name
	}
	return l
}

func vfFindCol(cols []vfCol, name string) (vfCol, bool) {
	for _, c := range cols {
		if c.name == name {
			return c, true
		}
	}
	return vfCol{}, false
}

// the shared column name pool; a name has the same kind in every table
var vfPool = []vfCol{{"k", vfNum}, {"a", vfNum}, {"c", vfNum}, {"g", vfNum}, {"b", vfStr}, {"d", vfStr},
	{"s", vfStr}, {"e", vfDate}, {"h", vfBool}, {"f", vfMixed}, {"m", vfMixed}}

type vfRow map[string]Value

type vfTable struct {
	name       string
	cols       []vfCol
	keys       [][]string
	idxs       [][]string
	rows       []vfRow
	allowEmpty bool
	persisted  int // rows that were in the database before PersistSync
}

type vfView struct {
	name string
	def  *vfNode
}

type vfDB struct {
	tables []*vfTable
	views  []*vfView
	db     *db19.Database
	ddl    []string
	desc   []string
	descN  int
	hash   uint64
}

func (d *vfDB) table(name string) *vfTable {
	for _, t := range d.tables {
		if t.name == name {
			return t
		}
	}
	return nil
}

func (t *vfTable) isKey(cols []string) bool {
	for _, k := range t.keys {
		if len(k) == len(cols) && vfSubset(k, cols) {
			return true
		}
	}
	return false
}

func vfSubset(sub, super []string) bool {
	for _, s := range sub {
		if !slices.Contains(super, s) {
			return false
		}
	}
	return true
}

func vfTupleKey(row vfRow, cols []string) string {
	var sb strings.Builder
	for _, c := range cols {
		p := vfPack(row[c])
		sb.WriteString(strconv.Itoa(len(p)))
		sb.WriteByte(':')
		sb.WriteString(p)
	}
	return sb.String()
}

func (t *vfTable) ddl() string {
	s := "create " + t.name + " (" + strings.Join(vfColNames(t.cols), ", ") + ")"
	for _, k := range t.keys {
		s += " key(" + strings.Join(k, ",") + ")"
	}
	for _, ix := range t.idxs {
		s += " index(" + strings.Join(ix, ",") + ")"
	}
	return s
}

// vfGenValue draws a value for a column of a table.
func vfGenValue(r *rand.Rand, t *vfTable, c vfCol, wide bool) Value {
	if c.kind != vfStr && c.kind != vfMixed && t.allowEmpty && r.IntN(12) == 0 {
		return EmptyStr
	}
	if c.kind == vfNum && wide {
		return vfPick(r, vfNumWide).v
	}
	return vfPick(r, vfDomain(c.kind)).v
}

// vfGenTables makes the model tables (schema + rows satisfying the keys).
func vfGenTables(r *rand.Rand, maxRows int) []*vfTable {
	nt := 3 + r.IntN(3)
	var tables []*vfTable
	for i := 0; i < nt; i++ {
		t := &vfTable{name: "t" + strconv.Itoa(i+1), allowEmpty: r.IntN(4) == 0}
		if i > 0 && r.IntN(3) == 0 {
			// same columns as an earlier table (union compatible family), maybe in another order
			t.cols = slices.Clone(vfPick(r, tables).cols)
			r.Shuffle(len(t.cols), func(a, b int) { t.cols[a], t.cols[b] = t.cols[b], t.cols[a] })
		} else {
			nc := 2 + r.IntN(5)
			perm := r.Perm(len(vfPool))
			for _, p := range perm[:nc] {
				t.cols = append(t.cols, vfPool[p])
			}
		}
		names := vfColNames(t.cols)
		if r.IntN(20) == 0 {
			t.keys = [][]string{{}}
		} else {
			nk := 1 + r.IntN(2)
			for len(t.keys) < nk {
				kl := 1
				if x := r.IntN(10); x >= 6 {
					kl = 2
				} else if x == 9 {
					kl = 3
				}
				kl = min(kl, len(names))
				perm := r.Perm(len(names))
				key := make([]string, kl)
				for j := range key {
					key[j] = names[perm[j]]
				}
				// a bool only key allows two rows; fine but boring: retry once
				dup := false
				for _, k := range t.keys {
					if len(k) == len(key) && vfSubset(k, key) {
						dup = true
					}
				}
				if !dup {
					t.keys = append(t.keys, key)
				} else if r.IntN(2) == 0 {
					break
				}
			}
			ni := r.IntN(3)
			for j := 0; j < ni; j++ {
				il := 1 + r.IntN(min(3, len(names)))
				perm := r.Perm(len(names))
				ix := make([]string, il)
				for q := range ix {
					ix[q] = names[perm[q]]
				}
				same := func(x []string) bool { return slices.Equal(x, ix) }
				if !slices.ContainsFunc(t.keys, same) && !slices.ContainsFunc(t.idxs, same) {
					t.idxs = append(t.idxs, ix)
				}
			}
		}
		// rows
		want := r.IntN(maxRows + 1)
		if r.IntN(25) == 0 {
			want = 0
		}
		if len(t.keys) == 1 && len(t.keys[0]) == 0 {
			want = min(want, 1)
		}
		wide := map[string]bool{}
		for _, k := range t.keys {
			if len(k) == 1 {
				wide[k[0]] = true
			}
		}
		seen := make([]map[string]bool, len(t.keys))
		for j := range seen {
			seen[j] = map[string]bool{}
		}
		for try := 0; try < want*3 && len(t.rows) < want; try++ {
			row := vfRow{}
			for _, c := range t.cols {
				row[c.name] = vfGenValue(r, t, c, wide[c.name])
			}
			ok := true
			for j, k := range t.keys {
				if seen[j][vfTupleKey(row, k)] {
					ok = false
				}
			}
			if !ok {
				continue
			}
			for j, k := range t.keys {
				seen[j][vfTupleKey(row, k)] = true
			}
			t.rows = append(t.rows, row)
		}
		tables = append(tables, t)
	}
	return tables
}

func vfRecord(t *vfTable, row vfRow) Record {
	var rb RecordBuilder
	for _, c := range t.cols {
		rb.Add(row[c.name].(Packable))
	}
	return rb.Trim().Build()
}

// vfCreate builds the real heap database for the model tables. Part of each table is persisted to the
// btrees and the rest left in the in-memory index layers, so iterators have to merge layers.
func (d *vfDB) create(r *rand.Rand) {
	st := stor.HeapStor(64 * 1024)
	st.Alloc(1)
	db := db19.CreateDb(st)
	db.CheckerSync()
	d.db = db
	for _, t := range d.tables {
		s := t.ddl()
		d.ddl = append(d.ddl, s)
		DoAdmin(db, s, nil)
	}
	split := r.IntN(3) // 0: all before persist, 1: half, 2: none persisted
	for pass := 0; pass < 2; pass++ {
		ut := db.NewUpdateTran()
		n := 0
		for _, t := range d.tables {
			cut := len(t.rows)
			switch split {
			case 1:
				cut = len(t.rows) / 2
			case 2:
				cut = 0
			}
			t.persisted = cut
			rows := t.rows[:cut]
			if pass == 1 {
				rows = t.rows[cut:]
			}
			for _, row := range rows {
				ut.Output(nil, t.name, vfRecord(t, row))
				n++
			}
		}
		db.CommitMerge(ut)
		if pass == 0 {
			db.PersistSync()
		}
	}
}

func (d *vfDB) addView(name string, def *vfNode) {
	s := "view " + name + " = " + def.text()
	DoAdmin(d.db, s, nil)
	d.ddl = append(d.ddl, s)
	d.views = append(d.views, &vfView{name: name, def: def})
}

func (d *vfDB) close() {
	if d.db != nil {
		d.db.Close()
		d.db = nil
	}
}

func vfShow(v Value) string {
	if l, ok := vfLitOf(v); ok {
		return l.text
	}
	return Display(nil, v)
}

// describe prints the schema and data as statements, for witnesses.
func (d *vfDB) describe() []string {
	if d.desc == nil || d.descN != len(d.ddl) {
		d.desc = d.describe1()
		d.descN = len(d.ddl)
	}
	return d.desc
}

func (d *vfDB) describe1() []string {
	out := slices.Clone(d.ddl)
	for _, t := range d.tables {
		for i, row := range t.rows {
			var sb strings.Builder
			sb.WriteString("insert { ")
			for j, c := range t.cols {
				if j > 0 {
					sb.WriteString(", ")
				}
				sb.WriteString(c.name + ": " + vfShow(row[c.name]))
			}
			sb.WriteString(" } into " + t.name)
			if i == t.persisted && i > 0 {
				out = append(out, "/* persist (rows above are in the btree, rows below in the index layer) */")
			}
			out = append(out, sb.String())
		}
	}
	return out
}

func (d *vfDB) totalRows() int {
	n := 0
	for _, t := range d.tables {
		n += len(t.rows)
	}
	return n
}

// dbHash identifies the database content (schema, views, rows).
func (d *vfDB) dbHash() uint64 {
	if d.hash == 0 {
		h := uint64(1469598103934665603)
		for _, l := range d.describe() {
			for i := 0; i < len(l); i++ {
				h = (h ^ uint64(l[i])) * 1099511628211
			}
			h = (h ^ 0xff) * 1099511628211
		}
		d.hash = h | 1
	}
	return d.hash
}

func vfCloneRow(r vfRow) vfRow {
	c := make(vfRow, len(r))
	for k, v := range r {
		c[k] = v
	}
	return c
}
