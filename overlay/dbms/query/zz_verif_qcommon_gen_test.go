// Shared by C22-C25: random query tree generator. It only builds queries that are valid by the documented
// rules (column clashes, common columns for joins, none for times, same columns for union/intersect/minus,
// summarize by/on/output names) and evaluates the model while it builds, so predicates use values that
// occur in the data and intermediate results stay small.
package query

import (
	"math/rand/v2"
	"slices"
	"strconv"
)

type vfGen struct {
	r      *rand.Rand
	d      *vfDB
	m      *vfModel // language ordering model, used for sizes and constants
	nfresh int
	noView bool
}

func vfNewGen(r *rand.Rand, d *vfDB) *vfGen {
	return &vfGen{r: r, d: d, m: vfNewModel(d, false)}
}

func (g *vfGen) fresh(prefix string) string {
	g.nfresh++
	return prefix + strconv.Itoa(g.nfresh)
}

func (g *vfGen) finish(n *vfNode) *vfNode {
	n.rel = g.m.eval(n)
	return n
}

func (g *vfGen) tableNode(t *vfTable) *vfNode {
	return g.finish(&vfNode{op: "table", name: t.name, out: slices.Clone(t.cols)})
}

func (g *vfGen) leaf() *vfNode {
	if !g.noView && len(g.d.views) > 0 && g.r.IntN(6) == 0 {
		v := vfPick(g.r, g.d.views)
		return g.finish(&vfNode{op: "view", name: v.name, def: v.def, out: slices.Clone(v.def.out)})
	}
	return g.tableNode(vfPick(g.r, g.d.tables))
}

func (g *vfGen) exprGen(n *vfNode) *vfExprGen {
	return &vfExprGen{r: g.r, cols: vfScalarCols(n.out), rel: n.rel}
}

// gen builds a query with at most depth operators on its longest path.
func (g *vfGen) gen(depth int) *vfNode {
	if depth <= 0 {
		return g.leaf()
	}
	for try := 0; try < 8; try++ {
		var n *vfNode
		switch x := g.r.IntN(100); {
		case x < 24:
			n = g.where(g.gen(depth - 1))
		case x < 33:
			n = g.project(g.gen(depth - 1))
		case x < 39:
			n = g.rename(g.gen(depth - 1))
		case x < 48:
			n = g.extend(g.gen(depth - 1))
		case x < 57:
			n = g.summarize(g.gen(depth - 1))
		case x < 67:
			n = g.joinLike("join", depth)
		case x < 76:
			n = g.joinLike("leftjoin", depth)
		case x < 81:
			n = g.joinLike("semijoin", depth)
		case x < 85:
			n = g.times(depth)
		case x < 92:
			n = g.compat("union", depth)
		case x < 96:
			n = g.compat("intersect", depth)
		default:
			n = g.compat("minus", depth)
		}
		if n != nil {
			return n
		}
	}
	return g.leaf()
}

func (g *vfGen) where(src *vfNode) *vfNode {
	n := g.where1(src)
	// mostly keep restrictions that select something, so the operators above see rows
	for try := 0; try < 2 && len(n.rel.rows) == 0 && len(src.rel.rows) > 0 && g.r.IntN(4) > 0; try++ {
		n = g.where1(src)
	}
	return n
}

func (g *vfGen) where1(src *vfNode) *vfNode {
	eg := g.exprGen(src)
	nterms := 1
	if x := g.r.IntN(10); x >= 8 {
		nterms = 3
	} else if x >= 5 {
		nterms = 2
	}
	var e *vfExpr
	if nterms == 1 {
		e = eg.pred(2)
	} else {
		args := make([]*vfExpr, nterms)
		for i := range args {
			args[i] = eg.pred(1)
		}
		e = vfOp("and", args...)
	}
	return g.finish(&vfNode{op: "where", src: src, expr: e, out: src.out, eqSign: g.r.IntN(6) == 0})
}

func (g *vfGen) project(src *vfNode) *vfNode {
	if len(src.out) < 2 {
		return nil
	}
	names := vfColNames(src.out)
	k := 1 + g.r.IntN(len(names)-1)
	perm := g.r.Perm(len(names))
	pick := make([]string, k)
	for i := range pick {
		pick[i] = names[perm[i]]
	}
	if g.r.IntN(3) == 0 {
		// remove: result columns are the others, in source order
		var out []vfCol
		for _, c := range src.out {
			if !slices.Contains(pick, c.name) {
				out = append(out, c)
			}
		}
		return g.finish(&vfNode{op: "remove", src: src, cols: pick, out: out})
	}
	out := make([]vfCol, k)
	for i, c := range pick {
		out[i], _ = vfFindCol(src.out, c)
	}
	return g.finish(&vfNode{op: "project", src: src, cols: pick, out: out})
}

// newName picks a column name of the given kind that is not in used: a free pool name of the same kind
// (so that later joins and unions can match it) or a fresh name.
func (g *vfGen) newName(kind vfKind, used []string) string {
	if g.r.IntN(2) == 0 {
		var cands []string
		for _, p := range vfPool {
			if p.kind == kind && !slices.Contains(used, p.name) {
				cands = append(cands, p.name)
			}
		}
		if len(cands) > 0 {
			return vfPick(g.r, cands)
		}
	}
	for {
		n := g.fresh("x")
		if !slices.Contains(used, n) {
			return n
		}
	}
}

func (g *vfGen) rename(src *vfNode) *vfNode {
	names := vfColNames(src.out)
	k := 1 + g.r.IntN(min(2, len(names)))
	perm := g.r.Perm(len(names))
	n := &vfNode{op: "rename", src: src, out: slices.Clone(src.out)}
	used := slices.Clone(names)
	for i := 0; i < k; i++ {
		j := perm[i]
		to := g.newName(src.out[j].kind, used)
		used = append(used, to)
		n.from = append(n.from, names[j])
		n.to = append(n.to, to)
		n.out[j].name = to
	}
	return g.finish(n)
}

func (g *vfGen) extend(src *vfNode) *vfNode {
	n := &vfNode{op: "extend", src: src, out: slices.Clone(src.out)}
	k := 1 + g.r.IntN(3)
	used := vfColNames(src.out)
	for i := 0; i < k; i++ {
		kind := vfPick(g.r, []vfKind{vfNum, vfNum, vfStr, vfStr, vfBool, vfMixed, vfDate})
		eg := &vfExprGen{r: g.r, cols: vfScalarCols(n.out), rel: nil} // sees earlier new columns
		var e *vfExpr
		switch g.r.IntN(6) {
		case 0: // constant (becomes a fixed value for the optimizer)
			e = vfConst(vfPick(g.r, vfDomain(kind)))
		case 1: // plain copy of a column
			if c := eg.colsOf(kind); len(c) > 0 {
				e = vfColRef(vfPick(g.r, c).name)
			}
		}
		if e == nil {
			e = eg.value(kind, 2)
		}
		name := g.newName(kind, used)
		used = append(used, name)
		n.ecols = append(n.ecols, name)
		n.eexprs = append(n.eexprs, e)
		n.out = append(n.out, vfCol{name, kind})
	}
	return g.finish(n)
}

func (g *vfGen) summarize(src *vfNode) *vfNode {
	names := vfColNames(src.out)
	n := &vfNode{op: "summarize", src: src}
	// by columns
	nby := 0
	if x := g.r.IntN(10); x >= 3 {
		nby = 1 + g.r.IntN(min(2, len(names)))
	}
	if nby >= len(names) && g.r.IntN(2) == 0 {
		nby = len(names) - 1
	}
	perm := g.r.Perm(len(names))
	for i := 0; i < nby; i++ {
		// a by column called count would be read as the count function
		if c := src.out[perm[i]]; c.name != "count" && c.kind != vfObj {
			n.cols = append(n.cols, c.name)
		}
	}
	rest := vfMinusCols(names, n.cols)
	nops := 1 + g.r.IntN(3)
	usedOut := slices.Clone(n.cols)
	for i := 0; i < nops; i++ {
		op := vfPick(g.r, []string{"count", "total", "max", "min", "average", "list", "max", "min"})
		on := ""
		var kind vfKind = vfNum
		if op != "count" {
			var cands []vfCol
			for _, c := range src.out {
				if !slices.Contains(rest, c.name) {
					continue
				}
				if (op == "total" || op == "average") && c.kind != vfNum {
					continue
				}
				if c.kind == vfObj || c.name == "count" {
					continue
				}
				cands = append(cands, c)
			}
			if len(cands) == 0 {
				op = "count"
			} else {
				c := vfPick(g.r, cands)
				on = c.name
				kind = c.kind
				if op == "list" {
					kind = vfObj
				}
			}
		}
		col := ""
		if g.r.IntN(3) == 0 {
			col = g.fresh("s")
		}
		name := vfSumName(col, op, on)
		// output names must be distinct, and differ from by columns and from every on column
		if slices.Contains(usedOut, name) || slices.Contains(names, name) {
			continue
		}
		usedOut = append(usedOut, name)
		n.scols = append(n.scols, col)
		n.sops = append(n.sops, op)
		n.sons = append(n.sons, on)
		n.out = append(n.out, vfCol{name, kind})
	}
	if len(n.sops) == 0 {
		n.scols, n.sops, n.sons = []string{""}, []string{"count"}, []string{""}
		if slices.Contains(names, "count") {
			n.scols[0] = g.fresh("s")
		}
		n.out = append(n.out, vfCol{vfSumName(n.scols[0], "count", ""), vfNum})
	}
	byCols := make([]vfCol, len(n.cols))
	for i, c := range n.cols {
		byCols[i], _ = vfFindCol(src.out, c)
	}
	n.out = append(byCols, n.out...)
	// the "overall min/max of a key also returns the record" case is only generated where the
	// documentation's condition can be decided from the schema: directly on a table
	if len(n.cols) == 0 && len(n.sops) == 1 && (n.sops[0] == "min" || n.sops[0] == "max") {
		t := (*vfTable)(nil)
		if src.op == "table" {
			t = g.d.table(src.name)
		}
		if t == nil {
			// avoid the undecidable case: add a count
			cn := ""
			if slices.Contains(names, "count") || slices.Contains(usedOut, "count") {
				cn = g.fresh("s")
			}
			n.scols = append(n.scols, cn)
			n.sops = append(n.sops, "count")
			n.sons = append(n.sons, "")
			n.out = append(n.out, vfCol{vfSumName(cn, "count", ""), vfNum})
		} else if t.isKey([]string{n.sons[0]}) || (len(t.keys) == 1 && len(t.keys[0]) == 0) {
			n.wholeRow = true
			n.out = append(slices.Clone(src.out), n.out...)
		}
	}
	return g.finish(n)
}

func vfCommon(a, b []vfCol) []string {
	return vfIntersectCols(vfColNames(a), vfColNames(b))
}

func (g *vfGen) joinLike(op string, depth int) *vfNode {
	left := g.gen(depth - 1)
	var right *vfNode
	for try := 0; try < 6 && right == nil; try++ {
		var cand *vfNode
		if try < 3 {
			cand = g.gen(g.r.IntN(depth))
		} else {
			cand = g.tableNode(vfPick(g.r, g.d.tables))
		}
		if len(vfCommon(left.out, cand.out)) > 0 {
			right = cand
		}
	}
	if right == nil {
		return nil
	}
	common := vfCommon(left.out, right.out)
	// often reduce to a single join column (otherwise matches are rare)
	if len(common) > 1 && g.r.IntN(3) > 0 {
		keep := vfPick(g.r, common)
		drop := vfMinusCols(common, []string{keep})
		if len(right.out)-len(drop) >= 1 {
			var out []vfCol
			for _, c := range right.out {
				if !slices.Contains(drop, c.name) {
					out = append(out, c)
				}
			}
			right = g.finish(&vfNode{op: "remove", src: right, cols: drop, out: out})
			common = []string{keep}
		}
	}
	if len(left.rel.rows)*len(right.rel.rows) > 40000 {
		return nil
	}
	n := &vfNode{op: op, src: left, src2: right, cols: common}
	if op == "semijoin" {
		n.out = left.out
		if len(common) > 1 && g.r.IntN(3) == 0 {
			// semijoin by(...) may name a subset of the common columns
			n.cols = []string{vfPick(g.r, common)}
			n.printBy = true
		} else {
			n.printBy = g.r.IntN(5) == 0
			if !n.printBy {
				n.cols = nil
			}
		}
	} else {
		n.out = slices.Clone(left.out)
		for _, c := range right.out {
			if !slices.Contains(common, c.name) {
				n.out = append(n.out, c)
			}
		}
		n.printBy = g.r.IntN(6) == 0
	}
	return g.tryFinish(n)
}

func (g *vfGen) tryFinish(n *vfNode) (res *vfNode) {
	defer func() {
		if e := recover(); e != nil {
			if _, ok := e.(vfTooBig); ok {
				res = nil
				return
			}
			panic(e)
		}
	}()
	return g.finish(n)
}

func (g *vfGen) times(depth int) *vfNode {
	left := g.gen(depth - 1)
	right := g.gen(g.r.IntN(depth))
	if len(left.rel.rows)*len(right.rel.rows) > 900 {
		// keep the product small: restrict the bigger side
		if len(right.rel.rows) > 5 {
			right = g.where(right)
		}
		if len(left.rel.rows)*len(right.rel.rows) > 900 {
			return nil
		}
	}
	clash := vfCommon(left.out, right.out)
	if len(clash) > 0 {
		rn := &vfNode{op: "rename", src: right, out: slices.Clone(right.out)}
		used := append(vfColNames(left.out), vfColNames(right.out)...)
		for i, c := range rn.out {
			if slices.Contains(clash, c.name) {
				to := g.fresh("y")
				used = append(used, to)
				rn.from = append(rn.from, c.name)
				rn.to = append(rn.to, to)
				rn.out[i].name = to
			}
		}
		right = g.finish(rn)
	}
	n := &vfNode{op: "times", src: left, src2: right, out: append(slices.Clone(left.out), right.out...)}
	return g.tryFinish(n)
}

// compat builds union / intersect / minus with both sides having the same columns.
func (g *vfGen) compat(op string, depth int) *vfNode {
	left := g.gen(depth - 1)
	names := vfColNames(left.out)
	var right *vfNode
	if g.r.IntN(10) < 6 {
		// another table that has all of left's columns, projected to them
		var cands []*vfTable
		for _, t := range g.d.tables {
			if vfSubset(names, vfColNames(t.cols)) {
				cands = append(cands, t)
			}
		}
		if len(cands) > 0 {
			t := vfPick(g.r, cands)
			right = g.tableNode(t)
			if g.r.IntN(2) == 0 {
				right = g.where(right)
			}
			if len(t.cols) > len(names) {
				out := make([]vfCol, len(names))
				cols := slices.Clone(names)
				g.r.Shuffle(len(cols), func(i, j int) { cols[i], cols[j] = cols[j], cols[i] })
				for i, c := range cols {
					out[i], _ = vfFindCol(t.cols, c)
				}
				right = g.finish(&vfNode{op: "project", src: right, cols: cols, out: out})
			}
		}
	}
	if right == nil {
		// the same query restricted differently
		right = g.where(g.reeval(left.clone()))
	}
	out := left.out
	if g.r.IntN(5) == 0 {
		// one side gets a column the other side lacks (there it reads as ""), extended with a constant - half of the time
		// with "" itself, so that the sides are not disjoint on it although the column is fixed on one side only
		kind := vfStr
		lit := vfS("")
		switch g.r.IntN(4) {
		case 0:
			kind, lit = vfNum, vfInt(1)
		case 1:
			lit = vfS("a")
		}
		name := g.newName(kind, append(vfColNames(left.out), vfColNames(right.out)...))
		side := right
		if g.r.IntN(3) == 0 {
			side = left
		}
		ext := &vfNode{op: "extend", src: side, out: append(slices.Clone(side.out), vfCol{name, kind}),
			ecols: []string{name}, eexprs: []*vfExpr{vfConst(lit)}}
		if ext = g.tryFinish(ext); ext == nil {
			return nil
		}
		if side == right {
			right = ext
			if op == "union" {
				out = ext.out
			}
		} else {
			left = ext
			if op != "intersect" {
				out = ext.out
			}
		}
	}
	n := &vfNode{op: op, src: left, src2: right, out: out}
	return g.tryFinish(n)
}

// reeval recomputes rel for a cloned tree (clones share rel pointers, which is fine: same content).
func (g *vfGen) reeval(n *vfNode) *vfNode { return g.finish(n) }

// query wraps a tree with an optional sort.
func (g *vfGen) query(depth int) *vfQuery {
	q := &vfQuery{root: g.gen(depth)}
	if sc := vfScalarCols(q.root.out); g.r.IntN(4) == 0 && len(sc) > 0 {
		names := vfColNames(sc)
		k := 1 + g.r.IntN(min(3, len(names)))
		perm := g.r.Perm(len(names))
		for i := 0; i < k; i++ {
			q.sort = append(q.sort, names[perm[i]])
		}
		q.reverse = g.r.IntN(3) == 0
	}
	return q
}

// vfGenDB makes a model database, creates the real one and adds a few views.
func vfGenDB(r *rand.Rand, maxRows int) *vfDB {
	d := &vfDB{tables: vfGenTables(r, maxRows)}
	d.create(r)
	nv := r.IntN(3)
	for i := 0; i < nv; i++ {
		g := vfNewGen(r, d)
		g.noView = true
		def := g.gen(1 + r.IntN(2))
		if def.leaf() {
			continue
		}
		d.addView("v"+strconv.Itoa(i+1), def)
	}
	return d
}
