// Shared by C22-C25: the harness's own expression trees, their printer (query/language source),
// an independent evaluator and a type directed random generator.
package query

import (
	"math/rand/v2"
	"strings"

	"github.com/apmckinlay/gsuneido/compile"
	. "github.com/apmckinlay/gsuneido/core"
)

type vfExpr struct {
	op   string // const col is isnt lt lte gt gte and or not in notin add sub mul cat neg tern call paren
	args []*vfExpr
	lit  vfLit
	name string // column or function name
	ops  []string // "chain" only: the operators between the args (printed flat, without parentheses)
}

func vfConst(l vfLit) *vfExpr              { return &vfExpr{op: "const", lit: l} }
func vfColRef(name string) *vfExpr         { return &vfExpr{op: "col", name: name} }
func vfOp(op string, a ...*vfExpr) *vfExpr { return &vfExpr{op: op, args: a} }

var vfOpText = map[string]string{"is": "is", "isnt": "isnt", "lt": "<", "lte": "<=", "gt": ">", "gte": ">=",
	"add": "+", "sub": "-", "mul": "*", "cat": "$", "and": "and", "or": "or",
	"div": "/", "mod": "%", "bitor": "|", "bitand": "&", "bitxor": "^", "lshift": "<<", "rshift": ">>", "match": "=~", "matchnot": "!~"}

// vfTh is the thread the harness's evaluator passes to core operations that want one (regular expressions).
var vfTh = &Thread{}

func (e *vfExpr) isCmp() bool {
	switch e.op {
	case "is", "isnt", "lt", "lte", "gt", "gte":
		return true
	}
	return false
}

func (e *vfExpr) atom() bool {
	return e.op == "const" || e.op == "col" || e.op == "call" || e.op == "paren"
}

// operand prints a sub expression, parenthesized unless it is an atom.
func (e *vfExpr) operand() string {
	if e.atom() {
		return e.text()
	}
	return "(" + e.text() + ")"
}

func (e *vfExpr) text() string {
	switch e.op {
	case "const":
		return e.lit.text
	case "col":
		return e.name
	case "paren":
		return "(" + e.args[0].text() + ")"
	case "is", "isnt", "lt", "lte", "gt", "gte", "add", "sub", "mul", "cat",
		"div", "mod", "bitor", "bitand", "bitxor", "lshift", "rshift", "match", "matchnot":
		return e.args[0].operand() + " " + vfOpText[e.op] + " " + e.args[1].operand()
	case "chain":
		// x0 op1 x1 op2 x2 ... of one precedence class, printed flat so that the compiler sees ONE n-ary node
		// (only generated where the harness does not evaluate the tree itself: C25)
		var sb strings.Builder
		sb.WriteString(e.args[0].operand())
		for i, a := range e.args[1:] {
			sb.WriteString(" " + vfOpText[e.ops[i]] + " " + a.operand())
		}
		return sb.String()
	case "bitnot":
		return "~" + e.args[0].operand()
	case "uplus":
		return "+" + e.args[0].operand()
	case "and", "or":
		parts := make([]string, len(e.args))
		for i, a := range e.args {
			// comparisons and in bind tighter than and/or: print them bare so the engine sees plain terms
			if a.isCmp() || a.op == "in" || a.atom() {
				parts[i] = a.text()
			} else {
				parts[i] = "(" + a.text() + ")"
			}
		}
		return strings.Join(parts, " "+e.op+" ")
	case "not":
		return "not (" + e.args[0].text() + ")"
	case "neg":
		return "-" + e.args[0].operand()
	case "in", "notin":
		parts := make([]string, len(e.args)-1)
		for i, a := range e.args[1:] {
			parts[i] = a.text()
		}
		s := " in ("
		if e.op == "notin" {
			s = " not in ("
		}
		return e.args[0].operand() + s + strings.Join(parts, ", ") + ")"
	case "tern":
		return "(" + e.args[0].text() + ") ? " + e.args[1].operand() + " : " + e.args[2].operand()
	case "call":
		parts := make([]string, len(e.args))
		for i, a := range e.args {
			parts[i] = a.text()
		}
		return e.name + "(" + strings.Join(parts, ", ") + ")"
	}
	panic("vfExpr.text: " + e.op)
}

func (e *vfExpr) columns(into map[string]bool) {
	if e.op == "col" {
		into[e.name] = true
	}
	for _, a := range e.args {
		a.columns(into)
	}
}

func (e *vfExpr) count(h map[string]int) {
	h[e.op]++
	for _, o := range e.ops {
		h[o]++
	}
	for _, a := range e.args {
		a.count(h)
	}
}

// vfRenameExpr returns a copy with columns renamed (used when a generated subtree is cloned).
func (e *vfExpr) clone() *vfExpr {
	c := *e
	c.args = make([]*vfExpr, len(e.args))
	for i, a := range e.args {
		c.args[i] = a.clone()
	}
	return &c
}

//-------------------------------------------------------------------
// user defined global functions usable in query expressions (there are no builtins in this test binary)

type vfFunc struct {
	name string
	src  string
	arg  vfKind
	res  vfKind
	fn   func(x Value) Value // the model's definition (always language ordering)
}

var vfFuncs = []vfFunc{
	{"VfInc", "function (x) { return x + 1 }", vfNum, vfNum, func(x Value) Value { return OpAdd(x, One) }},
	{"VfPos", "function (x) { return x > 0 }", vfNum, vfBool, func(x Value) Value { return SuBool(x.Compare(Zero) > 0) }},
	{"VfTag", "function (x) { return x $ '!' }", vfStr, vfStr, func(x Value) Value { return OpCat(x, SuStr("!")) }},
	{"VfSame", "function (x) { return x }", vfMixed, vfMixed, func(x Value) Value { return x }},
}

func vfDefineFuncs() {
	for _, f := range vfFuncs {
		Global.TestDef(f.name, compile.Constant(f.src))
	}
}

func vfFuncByName(name string) *vfFunc {
	for i := range vfFuncs {
		if vfFuncs[i].name == name {
			return &vfFuncs[i]
		}
	}
	return nil
}

//-------------------------------------------------------------------
// evaluator

// vfEval evaluates expressions on a row. raw selects the documented alternative ordering in which ""
// sorts before every value (comparison on stored encodings); open counts ordering comparisons
// between "" and a non-string, i.e. the evaluations whose result the property leaves open.
type vfEval struct {
	raw  bool
	open int
	// packDisagree counts ordering comparisons of two values whose stored encodings order differently
	// from the values (a defect of the encoding, property C13); used only to classify failures
	packDisagree int
}

func vfSign(n int) int {
	switch {
	case n < 0:
		return -1
	case n > 0:
		return 1
	}
	return 0
}

// cmp orders two values: language ordering (core Compare, trusted base) except in raw mode for "".
func (ev *vfEval) cmp(x, y Value) int {
	xe, ye := vfIsEmpty(x), vfIsEmpty(y)
	if xe != ye {
		other := y
		if ye {
			other = x
		}
		// language order: booleans < numbers < strings < dates; stored order: "" first.
		// They disagree exactly when the other value is a boolean or a number.
		if o := vfPack(other); o[0] == PackFalse || o[0] == PackTrue || o[0] == PackMinus || o[0] == PackPlus {
			ev.open++
		}
		if ev.raw {
			if xe {
				return -1
			}
			return 1
		}
	}
	c := vfSign(x.Compare(y))
	if xe == ye && c != vfSign(strings.Compare(vfPack(x), vfPack(y))) {
		ev.packDisagree++
	}
	return c
}

// try evaluates and returns the panic instead of raising it.
func (ev *vfEval) try(e *vfExpr, row vfRow) (v Value, p any) {
	defer func() {
		if r := recover(); r != nil {
			p = r
		}
	}()
	return ev.eval(e, row), nil
}

func (ev *vfEval) bool(e *vfExpr, row vfRow) bool {
	v := ev.eval(e, row)
	if v == True {
		return true
	}
	if v == False {
		return false
	}
	panic("vfEval: not a boolean: " + e.text())
}

func (ev *vfEval) eval(e *vfExpr, row vfRow) Value {
	switch e.op {
	case "const":
		return e.lit.v
	case "col":
		v, ok := row[e.name]
		if !ok {
			panic("vfEval: no column " + e.name)
		}
		return v
	case "paren":
		return ev.eval(e.args[0], row)
	case "is":
		return SuBool(ev.eval(e.args[0], row).Equal(ev.eval(e.args[1], row)))
	case "isnt":
		return SuBool(!ev.eval(e.args[0], row).Equal(ev.eval(e.args[1], row)))
	case "lt":
		return SuBool(ev.cmp(ev.eval(e.args[0], row), ev.eval(e.args[1], row)) < 0)
	case "lte":
		return SuBool(ev.cmp(ev.eval(e.args[0], row), ev.eval(e.args[1], row)) <= 0)
	case "gt":
		return SuBool(ev.cmp(ev.eval(e.args[0], row), ev.eval(e.args[1], row)) > 0)
	case "gte":
		return SuBool(ev.cmp(ev.eval(e.args[0], row), ev.eval(e.args[1], row)) >= 0)
	case "and":
		// no short circuit: the generated expressions cannot fail, and every operand must be
		// inspected for open comparisons
		res := true
		for _, a := range e.args {
			if !ev.bool(a, row) {
				res = false
			}
		}
		return SuBool(res)
	case "or":
		res := false
		for _, a := range e.args {
			if ev.bool(a, row) {
				res = true
			}
		}
		return SuBool(res)
	case "not":
		return SuBool(!ev.bool(e.args[0], row))
	case "in", "notin":
		x := ev.eval(e.args[0], row)
		found := false
		for _, a := range e.args[1:] {
			if x.Equal(ev.eval(a, row)) {
				found = true
			}
		}
		return SuBool(found == (e.op == "in"))
	case "add":
		return OpAdd(ev.eval(e.args[0], row), ev.eval(e.args[1], row))
	case "sub":
		return OpSub(ev.eval(e.args[0], row), ev.eval(e.args[1], row))
	case "mul":
		return OpMul(ev.eval(e.args[0], row), ev.eval(e.args[1], row))
	case "cat":
		return OpCat(ev.eval(e.args[0], row), ev.eval(e.args[1], row))
	case "neg":
		return OpUnaryMinus(ev.eval(e.args[0], row))
	case "uplus":
		return OpUnaryPlus(ev.eval(e.args[0], row))
	case "bitnot":
		return OpBitNot(ev.eval(e.args[0], row))
	case "div":
		return OpDiv(ev.eval(e.args[0], row), ev.eval(e.args[1], row))
	case "mod":
		return OpMod(ev.eval(e.args[0], row), ev.eval(e.args[1], row))
	case "bitor":
		return OpBitOr(ev.eval(e.args[0], row), ev.eval(e.args[1], row))
	case "bitand":
		return OpBitAnd(ev.eval(e.args[0], row), ev.eval(e.args[1], row))
	case "bitxor":
		return OpBitXor(ev.eval(e.args[0], row), ev.eval(e.args[1], row))
	case "lshift":
		return OpLeftShift(ev.eval(e.args[0], row), ev.eval(e.args[1], row))
	case "rshift":
		return OpRightShift(ev.eval(e.args[0], row), ev.eval(e.args[1], row))
	case "match":
		return OpMatch(vfTh, ev.eval(e.args[0], row), ev.eval(e.args[1], row))
	case "matchnot":
		return OpMatch(vfTh, ev.eval(e.args[0], row), ev.eval(e.args[1], row)).Not()
	case "tern":
		// both branches are evaluated (to see every open comparison); only the chosen one may raise
		t, tp := ev.try(e.args[1], row)
		f, fp := ev.try(e.args[2], row)
		c := ev.bool(e.args[0], row)
		if c {
			if tp != nil {
				panic(tp)
			}
			return t
		}
		if fp != nil {
			panic(fp)
		}
		return f
	case "call":
		f := vfFuncByName(e.name)
		return f.fn(ev.eval(e.args[0], row))
	}
	panic("vfEval: " + e.op)
}

//-------------------------------------------------------------------
// generator

type vfExprGen struct {
	r    *rand.Rand
	cols []vfCol
	rel  *vfRel // may be nil; constants are drawn from actual data when present
}

func (g *vfExprGen) colsOf(kinds ...vfKind) []vfCol {
	var l []vfCol
	for _, c := range g.cols {
		for _, k := range kinds {
			if c.kind == k {
				l = append(l, c)
			}
		}
	}
	return l
}

// constFor picks a constant to compare a column with: mostly a value that occurs in the data
// (so ranges have boundaries on existing keys), otherwise from the domain.
func (g *vfExprGen) constFor(c vfCol) *vfExpr {
	if g.rel != nil && len(g.rel.rows) > 0 && g.r.IntN(10) < 7 {
		v := vfPick(g.r, g.rel.rows)[c.name]
		if l, ok := vfLitOf(v); ok {
			return vfConst(l)
		}
	}
	k := c.kind
	if k == vfMixed || g.r.IntN(25) == 0 {
		return vfConst(vfPick(g.r, vfMixedDom))
	}
	if k == vfNum && g.r.IntN(3) == 0 {
		return vfConst(vfPick(g.r, vfNumWide))
	}
	return vfConst(vfPick(g.r, vfDomain(k)))
}

var vfCmpOps = []string{"is", "is", "isnt", "lt", "lte", "gt", "gte"}

func (g *vfExprGen) pred(depth int) *vfExpr {
	r := g.r
	if len(g.cols) == 0 {
		return vfOp("is", vfConst(vfInt(1)), vfConst(vfInt(r.IntN(2))))
	}
	x := r.IntN(100)
	if depth <= 0 && x >= 72 {
		x = r.IntN(72)
	}
	c := vfPick(r, g.cols)
	switch {
	case x < 36: // col op const
		e := vfOp(vfPick(r, vfCmpOps), vfColRef(c.name), g.constFor(c))
		if r.IntN(8) == 0 {
			return vfOp("paren", e)
		}
		return e
	case x < 40: // const op col
		return vfOp(vfPick(r, vfCmpOps), g.constFor(c), vfColRef(c.name))
	case x < 50: // in
		n := 2 + r.IntN(3)
		args := []*vfExpr{vfColRef(c.name)}
		for i := 0; i < n; i++ {
			args = append(args, g.constFor(c))
		}
		if r.IntN(5) == 0 {
			return vfOp("notin", args...)
		}
		return vfOp("in", args...)
	case x < 60: // range on one column
		lo, hi := g.constFor(c), g.constFor(c)
		if lo.lit.v.Compare(hi.lit.v) > 0 {
			lo, hi = hi, lo
		}
		return vfOp("and", vfOp(vfPick(r, []string{"gt", "gte"}), vfColRef(c.name), lo),
			vfOp(vfPick(r, []string{"lt", "lte"}), vfColRef(c.name), hi))
	case x < 66: // col op col of the same kind
		same := g.colsOf(c.kind)
		return vfOp(vfPick(r, vfCmpOps), vfColRef(c.name), vfColRef(vfPick(r, same).name))
	case x < 70: // computed value compared with a constant
		if nums := g.colsOf(vfNum); len(nums) > 0 && r.IntN(3) > 0 {
			return vfOp(vfPick(r, vfCmpOps), g.value(vfNum, 1), vfConst(vfPick(r, vfNumSmall)))
		}
		if strs := g.colsOf(vfStr); len(strs) > 0 {
			return vfOp(vfPick(r, []string{"is", "isnt", "lt", "gte"}), g.value(vfStr, 1), vfConst(vfPick(r, vfStrDom)))
		}
		return vfOp("is", vfColRef(c.name), g.constFor(c))
	case x < 72: // function call
		for _, f := range []string{"VfPos", "VfInc", "VfTag", "VfSame"} {
			fn := vfFuncByName(f)
			var cands []vfCol
			if fn.arg == vfMixed {
				cands = g.cols
			} else {
				cands = g.colsOf(fn.arg)
			}
			if len(cands) == 0 || r.IntN(2) == 0 {
				continue
			}
			a := vfPick(r, cands)
			call := &vfExpr{op: "call", name: f, args: []*vfExpr{vfColRef(a.name)}}
			switch fn.res {
			case vfBool:
				if r.IntN(2) == 0 {
					return vfOp("is", call, vfConst(vfLit{True, "true"}))
				}
				return call
			case vfNum:
				return vfOp(vfPick(r, vfCmpOps), call, vfConst(vfPick(r, vfNumSmall)))
			case vfStr:
				return vfOp("is", call, vfConst(vfS(vfPick(r, []string{"a!", "b!", "!", "ab!"}))))
			default:
				return vfOp(vfPick(r, []string{"is", "isnt"}), call, g.constFor(a))
			}
		}
		return vfOp("is", vfColRef(c.name), g.constFor(c))
	case x < 80:
		return vfOp("not", g.pred(depth-1))
	case x < 89:
		n := 2 + r.IntN(2)
		args := make([]*vfExpr, n)
		for i := range args {
			args[i] = g.pred(depth - 1)
		}
		if r.IntN(3) == 0 {
			// several equalities on one column: the folder turns this into in
			for i := range args {
				args[i] = vfOp("is", vfColRef(c.name), g.constFor(c))
			}
		}
		return vfOp("or", args...)
	case x < 96:
		return vfOp("and", g.pred(depth-1), g.pred(depth-1))
	case x < 98:
		return vfOp("tern", g.pred(depth-1), g.pred(depth-1), g.pred(depth-1))
	default:
		if r.IntN(2) == 0 {
			return vfConst(vfLit{True, "true"})
		}
		return vfOp("is", vfConst(vfInt(1)), vfConst(vfInt(r.IntN(2))))
	}
}

// value generates an expression of the given kind that cannot fail on the generated data:
// arithmetic only on numeric columns ("" counts as 0), concatenation on strings and numbers.
func (g *vfExprGen) value(k vfKind, depth int) *vfExpr {
	r := g.r
	cands := g.colsOf(k)
	leaf := func() *vfExpr {
		if len(cands) > 0 && r.IntN(4) > 0 {
			return vfColRef(vfPick(r, cands).name)
		}
		if k == vfMixed && len(g.cols) > 0 && r.IntN(2) == 0 {
			return vfColRef(vfPick(r, g.cols).name)
		}
		return vfConst(vfPick(r, vfDomain(k)))
	}
	if depth <= 0 {
		return leaf()
	}
	switch k {
	case vfNum:
		switch r.IntN(7) {
		case 0:
			return vfOp("add", g.value(vfNum, depth-1), g.value(vfNum, depth-1))
		case 1:
			return vfOp("sub", g.value(vfNum, depth-1), g.value(vfNum, depth-1))
		case 2:
			return vfOp("mul", g.value(vfNum, depth-1), vfConst(vfPick(r, []vfLit{vfInt(2), vfInt(3), vfInt(-1), vfDec(".5"), vfInt(10)})))
		case 3:
			if len(cands) > 0 {
				return vfOp("neg", vfColRef(vfPick(r, cands).name))
			}
		case 4:
			return vfOp("tern", g.pred(0), g.value(vfNum, depth-1), g.value(vfNum, depth-1))
		case 5:
			if len(cands) > 0 {
				return &vfExpr{op: "call", name: "VfInc", args: []*vfExpr{vfColRef(vfPick(r, cands).name)}}
			}
		}
		return vfOp("add", leaf(), vfConst(vfPick(r, vfNumSmall)))
	case vfStr:
		part := func() *vfExpr {
			if nums := g.colsOf(vfNum); len(nums) > 0 && r.IntN(4) == 0 {
				return vfColRef(vfPick(r, nums).name)
			}
			return g.value(vfStr, 0)
		}
		switch r.IntN(4) {
		case 0:
			return vfOp("tern", g.pred(0), g.value(vfStr, depth-1), g.value(vfStr, depth-1))
		case 1:
			if len(cands) > 0 {
				return &vfExpr{op: "call", name: "VfTag", args: []*vfExpr{vfColRef(vfPick(r, cands).name)}}
			}
		}
		return vfOp("cat", part(), part())
	case vfBool:
		return g.pred(depth - 1)
	case vfMixed:
		if r.IntN(2) == 0 {
			return vfOp("tern", g.pred(0), g.value(vfNum, 0), g.value(vfStr, 0))
		}
	}
	return leaf()
}
