// Shared by C22-C25: the harness's own query trees, their printer and the independent relational model,
// written from suneidoc/Database/Queries/*.md. It evaluates the query AS WRITTEN over []map[col]Value.
package query

import (
	"fmt"
	"slices"
	"sort"
	"strings"

	. "github.com/apmckinlay/gsuneido/core"
)

type vfNode struct {
	op   string // table view where project remove rename extend summarize join leftjoin semijoin times union intersect minus
	src  *vfNode
	src2 *vfNode
	name string   // table or view name
	def  *vfNode  // view definition
	expr *vfExpr  // where
	cols []string // project / remove columns, summarize by, join by
	from []string // rename
	to   []string
	// extend
	ecols  []string
	eexprs []*vfExpr
	// summarize (parallel); scols[i]=="" means default name
	scols    []string
	sops     []string
	sons     []string
	wholeRow bool // documented special case: overall min/max of a key also gives the record
	printBy  bool
	eqSign   bool // print "=" instead of "is" at the top of a where (query syntax allows both)

	out []vfCol // static result columns
	rel *vfRel  // model result in language ordering (filled by the generator)
}

type vfRel struct {
	cols []string
	rows []vfRow
}

func (n *vfNode) leaf() bool { return n.op == "table" || n.op == "view" }

func (n *vfNode) operandText() string {
	if n.leaf() {
		return n.name
	}
	return "(" + n.text() + ")"
}

func vfSumName(col, op, on string) string {
	if col != "" {
		return col
	}
	if op == "count" {
		return "count"
	}
	return op + "_" + on
}

func (n *vfNode) text() string {
	switch n.op {
	case "table", "view":
		return n.name
	case "where":
		s := n.expr.text()
		if n.eqSign {
			s = strings.Replace(s, " is ", " = ", 1)
		}
		return n.src.operandText() + " where " + s
	case "project", "remove":
		return n.src.operandText() + " " + n.op + " " + strings.Join(n.cols, ", ")
	case "rename":
		parts := make([]string, len(n.from))
		for i := range n.from {
			parts[i] = n.from[i] + " to " + n.to[i]
		}
		return n.src.operandText() + " rename " + strings.Join(parts, ", ")
	case "extend":
		parts := make([]string, len(n.ecols))
		for i := range n.ecols {
			parts[i] = n.ecols[i] + " = " + n.eexprs[i].text()
		}
		return n.src.operandText() + " extend " + strings.Join(parts, ", ")
	case "summarize":
		var parts []string
		parts = append(parts, n.cols...)
		for i := range n.sops {
			s := ""
			if n.scols[i] != "" {
				s = n.scols[i] + " = "
			}
			s += n.sops[i]
			if n.sops[i] != "count" {
				s += " " + n.sons[i]
			}
			parts = append(parts, s)
		}
		return n.src.operandText() + " summarize " + strings.Join(parts, ", ")
	case "join", "leftjoin", "semijoin":
		by := ""
		if n.printBy {
			by = " by(" + strings.Join(n.cols, ",") + ")"
		}
		return n.src.operandText() + " " + n.op + by + " " + n.src2.operandText()
	case "times", "union", "intersect", "minus":
		return n.src.operandText() + " " + n.op + " " + n.src2.operandText()
	}
	panic("vfNode.text: " + n.op)
}

func (n *vfNode) count(h map[string]int) {
	h[n.op]++
	if n.src != nil {
		n.src.count(h)
	}
	if n.src2 != nil {
		n.src2.count(h)
	}
	if n.def != nil {
		n.def.count(h)
	}
}

func (n *vfNode) nops() int {
	h := map[string]int{}
	n.count(h)
	t := 0
	for op, c := range h {
		if op != "table" && op != "view" {
			t += c
		}
	}
	return t
}

func (n *vfNode) exprHist(h map[string]int) {
	if n.expr != nil {
		n.expr.count(h)
	}
	for _, e := range n.eexprs {
		e.count(h)
	}
	for _, s := range []*vfNode{n.src, n.src2, n.def} {
		if s != nil {
			s.exprHist(h)
		}
	}
}

func (n *vfNode) clone() *vfNode {
	c := *n
	if n.src != nil {
		c.src = n.src.clone()
	}
	if n.src2 != nil {
		c.src2 = n.src2.clone()
	}
	if n.expr != nil {
		c.expr = n.expr.clone()
	}
	c.eexprs = make([]*vfExpr, len(n.eexprs))
	for i, e := range n.eexprs {
		c.eexprs[i] = e.clone()
	}
	return &c
}

// vfQuery is a request: a query tree plus an optional sort.
type vfQuery struct {
	root    *vfNode
	sort    []string
	reverse bool
}

func (q *vfQuery) text() string {
	s := q.root.text()
	if len(q.sort) > 0 {
		s += " sort "
		if q.reverse {
			s += "reverse "
		}
		s += strings.Join(q.sort, ", ")
	}
	return s
}

//-------------------------------------------------------------------

type vfTooBig struct{}

// vfModel evaluates query trees. One instance = one ordering mode (see vfEval).
type vfModel struct {
	d       *vfDB
	ev      vfEval
	maxRows int
	memo    map[*vfNode]*vfRel
	// probe only (attribution of a mismatch to a recorded finding, never the oracle): evaluate a where directly over a
	// by-less min/max summarize that returns the record the way the engine's transform does - the conjuncts that do not
	// mention the aggregate are applied to the source before the summarize
	whereBeforeWholeRow bool
	usedAlt             int
}

// vfConjuncts flattens the top-level and / parentheses of a where expression.
func vfConjuncts(e *vfExpr, into []*vfExpr) []*vfExpr {
	if e.op == "paren" && len(e.args) == 1 {
		return vfConjuncts(e.args[0], into)
	}
	if e.op == "and" {
		for _, a := range e.args {
			into = vfConjuncts(a, into)
		}
		return into
	}
	return append(into, e)
}

// wholeRowBelow returns the by-less min/max summarize node that n is (through views), or nil
func vfWholeRowNode(n *vfNode) *vfNode {
	for n != nil && n.op == "view" {
		n = n.def
	}
	if n != nil && n.op == "summarize" && n.wholeRow {
		return n
	}
	return nil
}

func vfNewModel(d *vfDB, raw bool) *vfModel {
	return &vfModel{d: d, ev: vfEval{raw: raw}, maxRows: 4000, memo: map[*vfNode]*vfRel{}}
}

func vfRowKey(row vfRow, cols []string) string { return vfTupleKey(row, cols) }

func vfDedup(rows []vfRow, cols []string) []vfRow {
	seen := map[string]bool{}
	var out []vfRow
	for _, r := range rows {
		k := vfRowKey(r, cols)
		if !seen[k] {
			seen[k] = true
			out = append(out, r)
		}
	}
	return out
}

func vfProjectRow(row vfRow, cols []string) vfRow {
	r := make(vfRow, len(cols))
	for _, c := range cols {
		v, ok := row[c]
		if !ok {
			v = EmptyStr
		}
		r[c] = v
	}
	return r
}

func vfUnionCols(a, b []string) []string {
	out := slices.Clone(a)
	for _, c := range b {
		if !slices.Contains(out, c) {
			out = append(out, c)
		}
	}
	return out
}

func vfIntersectCols(a, b []string) []string {
	var out []string
	for _, c := range a {
		if slices.Contains(b, c) {
			out = append(out, c)
		}
	}
	return out
}

func vfMinusCols(a, b []string) []string {
	var out []string
	for _, c := range a {
		if !slices.Contains(b, c) {
			out = append(out, c)
		}
	}
	return out
}

func (m *vfModel) eval(n *vfNode) *vfRel {
	if r, ok := m.memo[n]; ok {
		return r
	}
	r := m.eval1(n)
	if len(r.rows) > m.maxRows {
		panic(vfTooBig{})
	}
	m.memo[n] = r
	return r
}

func (m *vfModel) eval1(n *vfNode) *vfRel {
	switch n.op {
	case "table":
		t := m.d.table(n.name)
		return &vfRel{cols: vfColNames(t.cols), rows: t.rows}
	case "view":
		return m.eval(n.def)
	case "where":
		if su := vfWholeRowNode(n.src); su != nil && m.whereBeforeWholeRow {
			srcRel := m.eval(su.src)
			var before []*vfExpr
			for _, c := range vfConjuncts(n.expr, nil) {
				cols := map[string]bool{}
				c.columns(cols)
				ok := true
				for col := range cols {
					ok = ok && slices.Contains(srcRel.cols, col)
				}
				if ok {
					before = append(before, c)
				}
			}
			if len(before) > 0 {
				m.usedAlt++
				flt := &vfRel{cols: srcRel.cols}
			rows:
				for _, row := range srcRel.rows {
					for _, c := range before {
						if !m.ev.bool(c, row) {
							continue rows
						}
					}
					flt.rows = append(flt.rows, row)
				}
				su2 := *su
				tmp := &vfNode{op: "table"}
				su2.src = tmp
				m.memo[tmp] = flt
				s := m.summarize(&su2)
				out := &vfRel{cols: s.cols}
				for _, row := range s.rows {
					if m.ev.bool(n.expr, row) {
						out.rows = append(out.rows, row)
					}
				}
				return out
			}
		}
		s := m.eval(n.src)
		out := &vfRel{cols: s.cols}
		for _, row := range s.rows {
			if m.ev.bool(n.expr, row) {
				out.rows = append(out.rows, row)
			}
		}
		return out
	case "project", "remove":
		s := m.eval(n.src)
		cols := n.cols
		if n.op == "remove" {
			cols = vfMinusCols(s.cols, n.cols)
		}
		out := &vfRel{cols: cols}
		for _, row := range s.rows {
			out.rows = append(out.rows, vfProjectRow(row, cols))
		}
		out.rows = vfDedup(out.rows, cols)
		return out
	case "rename":
		s := m.eval(n.src)
		out := &vfRel{cols: slices.Clone(s.cols)}
		for i := range n.from {
			j := slices.Index(out.cols, n.from[i])
			if j < 0 {
				panic(fmt.Sprintf("vfModel: rename of %s which is not a column of its source (%v): %s", n.from[i], s.cols, n.text()))
			}
			out.cols[j] = n.to[i]
		}
		for _, row := range s.rows {
			nr := vfRow{}
			for j, c := range s.cols {
				nr[out.cols[j]] = row[c]
			}
			out.rows = append(out.rows, nr)
		}
		return out
	case "extend":
		s := m.eval(n.src)
		out := &vfRel{cols: append(slices.Clone(s.cols), n.ecols...)}
		for _, row := range s.rows {
			nr := vfRow{}
			for c, v := range row {
				nr[c] = v
			}
			// left to right, later expressions see earlier new columns
			for i, c := range n.ecols {
				nr[c] = vfNorm(m.ev.eval(n.eexprs[i], nr))
			}
			out.rows = append(out.rows, nr)
		}
		return out
	case "summarize":
		return m.summarize(n)
	case "join", "leftjoin", "semijoin":
		return m.join(n)
	case "times":
		a, b := m.eval(n.src), m.eval(n.src2)
		if len(a.rows)*len(b.rows) > m.maxRows {
			panic(vfTooBig{})
		}
		out := &vfRel{cols: vfUnionCols(a.cols, b.cols)}
		for _, ra := range a.rows {
			for _, rb := range b.rows {
				out.rows = append(out.rows, vfMerge(ra, rb))
			}
		}
		return out
	case "union":
		a, b := m.eval(n.src), m.eval(n.src2)
		cols := vfUnionCols(a.cols, b.cols)
		out := &vfRel{cols: cols}
		for _, r := range a.rows {
			out.rows = append(out.rows, vfProjectRow(r, cols))
		}
		for _, r := range b.rows {
			out.rows = append(out.rows, vfProjectRow(r, cols))
		}
		out.rows = vfDedup(out.rows, cols)
		return out
	case "intersect", "minus":
		a, b := m.eval(n.src), m.eval(n.src2)
		all := vfUnionCols(a.cols, b.cols)
		in2 := map[string]bool{}
		for _, r := range b.rows {
			in2[vfRowKey(vfProjectRow(r, all), all)] = true
		}
		cols := a.cols
		if n.op == "intersect" {
			cols = vfIntersectCols(a.cols, b.cols)
		}
		out := &vfRel{cols: cols}
		for _, r := range a.rows {
			if in2[vfRowKey(vfProjectRow(r, all), all)] == (n.op == "intersect") {
				out.rows = append(out.rows, vfProjectRow(r, cols))
			}
		}
		out.rows = vfDedup(out.rows, cols)
		return out
	}
	panic("vfModel.eval: " + n.op)
}

func vfMerge(a, b vfRow) vfRow {
	r := make(vfRow, len(a)+len(b))
	for c, v := range b {
		r[c] = v
	}
	for c, v := range a {
		r[c] = v
	}
	return r
}

func (m *vfModel) join(n *vfNode) *vfRel {
	a, b := m.eval(n.src), m.eval(n.src2)
	by := vfIntersectCols(a.cols, b.cols)
	if n.op == "semijoin" && len(n.cols) > 0 {
		by = n.cols
	}
	idx := map[string][]vfRow{}
	for _, rb := range b.rows {
		k := vfRowKey(rb, by)
		idx[k] = append(idx[k], rb)
	}
	if n.op == "semijoin" {
		out := &vfRel{cols: a.cols}
		for _, ra := range a.rows {
			if len(idx[vfRowKey(ra, by)]) > 0 {
				out.rows = append(out.rows, ra)
			}
		}
		return out
	}
	out := &vfRel{cols: vfUnionCols(a.cols, b.cols)}
	only2 := vfMinusCols(b.cols, a.cols)
	for _, ra := range a.rows {
		ms := idx[vfRowKey(ra, by)]
		for _, rb := range ms {
			out.rows = append(out.rows, vfMerge(ra, rb))
		}
		if len(ms) == 0 && n.op == "leftjoin" {
			nr := vfMerge(ra, nil)
			for _, c := range only2 {
				nr[c] = EmptyStr
			}
			out.rows = append(out.rows, nr)
		}
		if len(out.rows) > m.maxRows {
			panic(vfTooBig{})
		}
	}
	return out
}

func (m *vfModel) summarize(n *vfNode) *vfRel {
	s := m.eval(n.src)
	var outCols []string
	if n.wholeRow {
		outCols = slices.Clone(s.cols)
	} else {
		outCols = slices.Clone(n.cols)
	}
	for i := range n.sops {
		outCols = append(outCols, vfSumName(n.scols[i], n.sops[i], n.sons[i]))
	}
	out := &vfRel{cols: outCols}
	var order []string
	groups := map[string][]vfRow{}
	for _, row := range s.rows {
		k := vfRowKey(row, n.cols)
		if _, ok := groups[k]; !ok {
			order = append(order, k)
		}
		groups[k] = append(groups[k], row)
	}
	// no input rows => no output rows, also without by columns (documented)
	for _, k := range order {
		g := groups[k]
		nr := vfRow{}
		for _, c := range n.cols {
			nr[c] = g[0][c]
		}
		for i, op := range n.sops {
			name := vfSumName(n.scols[i], op, n.sons[i])
			on := n.sons[i]
			switch op {
			case "count":
				nr[name] = IntVal(len(g))
			case "total", "average":
				tot := Value(Zero)
				for _, row := range g {
					tot = vfAddIgnore(tot, row[on])
				}
				if op == "average" {
					tot = OpDiv(tot, IntVal(len(g)))
				}
				nr[name] = vfNorm(tot)
			case "min", "max":
				best := g[0]
				for _, row := range g[1:] {
					c := m.ev.cmp(row[on], best[on])
					if (op == "min" && c < 0) || (op == "max" && c > 0) {
						best = row
					}
				}
				nr[name] = best[on]
				if n.wholeRow {
					for _, c := range s.cols {
						nr[c] = best[c]
					}
				}
			case "list":
				seen := map[string]bool{}
				var l []Value
				for _, row := range g {
					if p := vfPack(row[on]); !seen[p] {
						seen[p] = true
						l = append(l, row[on])
					}
				}
				// the engine's element order is unspecified; the harness runs it with its
				// deterministic (sorted) option and sorts the same way
				sort.SliceStable(l, func(i, j int) bool { return l[i].Compare(l[j]) < 0 })
				nr[name] = vfNorm(NewSuObject(l))
			}
		}
		out.rows = append(out.rows, nr)
	}
	return out
}

func vfAddIgnore(tot, v Value) (res Value) {
	defer func() {
		if recover() != nil {
			res = tot
		}
	}()
	return OpAdd(tot, v)
}

//-------------------------------------------------------------------

// vfOrdered checks that rows (already projected to maps) are ordered by cols.
// Adjacent rows whose first difference is between "" and a non-string are left open.
// Returns the index of the first offending pair or -1.
func vfOrdered(rows []vfRow, cols []string, reverse bool) int {
	i, _ := vfOrdered2(rows, cols, reverse)
	return i
}

// vfOrdered2 also reports whether the offending pair is one whose stored encodings order differently.
func vfOrdered2(rows []vfRow, cols []string, reverse bool) (int, bool) {
	ev := vfEval{}
	for i := 1; i < len(rows); i++ {
		for _, c := range cols {
			x, y := rows[i-1][c], rows[i][c]
			if vfSame(x, y) {
				continue
			}
			before := ev.open
			cmp := ev.cmp(x, y)
			if ev.open != before {
				break // open pair: either order is acceptable
			}
			if reverse {
				cmp = -cmp
			}
			if cmp > 0 {
				return i, ev.packDisagree > 0
			}
			ev.packDisagree = 0
			break
		}
	}
	return -1, false
}

// vfHasNode reports whether the tree (including view definitions) has a node satisfying f.
func vfHasNode(n *vfNode, f func(*vfNode) bool) bool {
	if n == nil {
		return false
	}
	return f(n) || vfHasNode(n.src, f) || vfHasNode(n.src2, f) || vfHasNode(n.def, f)
}

// vfEmptyRangeInOr: an or that has an operand "col > c1 and col < c2" which no value satisfies.
func vfEmptyRangeInOr(e *vfExpr) bool {
	if e == nil {
		return false
	}
	if e.op == "or" {
		for _, a := range e.args {
			if a.op == "paren" {
				a = a.args[0]
			}
			// col < "" (nothing sorts before "" in the stored ordering) is the other unsatisfiable operand
			if a.isCmp() && ((a.op == "lt" && a.args[0].op == "col" && a.args[1].op == "const" && vfIsEmpty(a.args[1].lit.v)) ||
				(a.op == "gt" && a.args[1].op == "col" && a.args[0].op == "const" && vfIsEmpty(a.args[0].lit.v))) {
				return true
			}
			if a.op == "and" && len(a.args) == 2 && a.args[0].isCmp() && a.args[1].isCmp() &&
				a.args[0].args[0].op == "col" && a.args[1].args[0].op == "col" && a.args[0].args[0].name == a.args[1].args[0].name &&
				a.args[0].args[1].op == "const" && a.args[1].args[1].op == "const" {
				lo, hi := a.args[0], a.args[1]
				if (lo.op == "gt" || lo.op == "gte") && (hi.op == "lt" || hi.op == "lte") {
					c := lo.args[1].lit.v.Compare(hi.args[1].lit.v)
					if c > 0 || (c == 0 && (lo.op == "gt" || hi.op == "lt")) {
						return true
					}
				}
			}
		}
	}
	for _, a := range e.args {
		if vfEmptyRangeInOr(a) {
			return true
		}
	}
	return false
}

func vfHasEmptyRangeInOr(n *vfNode) bool {
	return vfHasNode(n, func(n *vfNode) bool { return n.op == "where" && vfEmptyRangeInOr(n.expr) })
}
