// C25 Query expressions evaluate like language expressions.
// Each generated expression is evaluated on generated rows (a) by the interpreter as
// function (a, b, ...) { return <expr> }, (b) by the query expression evaluator on a stored record with the
// raw (packed) path enabled (CanEvalRaw) and (c) with it disabled, and (d) inside real where / extend
// queries over a stored table. Same value or an exception in both; only the documented ordering of ""
// against numbers/booleans on stored encodings is left open.
package query

import (
	"fmt"
	"math/rand/v2"
	"strings"
	"testing"

	"github.com/apmckinlay/gsuneido/compile"
	"github.com/apmckinlay/gsuneido/compile/ast"
	tok "github.com/apmckinlay/gsuneido/compile/tokens"
	. "github.com/apmckinlay/gsuneido/core"
	vk "github.com/apmckinlay/gsuneido/util/verifkit"
)

var vfC25Cols = []vfCol{{"a", vfNum}, {"c", vfNum}, {"b", vfStr}, {"s", vfStr}, {"e", vfDate}, {"h", vfBool}, {"f", vfMixed}, {"m", vfMixed}}

// wild generates expressions without regard to column kinds, so evaluation may fail (both sides must then fail).
func vfC25Wild(r *rand.Rand, depth int) *vfExpr {
	leaf := func() *vfExpr {
		if r.IntN(3) > 0 {
			return vfColRef(vfPick(r, vfC25Cols).name)
		}
		return vfConst(vfPick(r, vfDomain(vfPick(r, []vfKind{vfNum, vfStr, vfDate, vfBool, vfMixed}))))
	}
	if depth <= 0 {
		return leaf()
	}
	sub := func() *vfExpr { return vfC25Wild(r, depth-1) }
	switch x := r.IntN(34); {
	case x < 8:
		return vfOp(vfPick(r, vfCmpOps), sub(), sub())
	case x < 10:
		n := 2 + r.IntN(3)
		args := []*vfExpr{sub()}
		for i := 0; i < n; i++ {
			args = append(args, leaf())
		}
		return vfOp(vfPick(r, []string{"in", "in", "notin"}), args...)
	case x < 14:
		return vfOp(vfPick(r, []string{"add", "sub", "mul", "div", "mod"}), sub(), sub())
	case x < 16:
		return vfOp("cat", sub(), sub())
	case x < 18:
		return vfOp(vfPick(r, []string{"bitor", "bitand", "bitxor", "lshift", "rshift"}), sub(), sub())
	case x < 20:
		return vfOp(vfPick(r, []string{"neg", "uplus", "bitnot", "not"}), sub())
	case x < 24:
		cmp := func() *vfExpr { return vfOp(vfPick(r, vfCmpOps), sub(), leaf()) }
		return vfOp(vfPick(r, []string{"and", "or"}), cmp(), cmp())
	case x < 26:
		return vfOp("tern", vfOp(vfPick(r, vfCmpOps), sub(), leaf()), sub(), sub())
	case x < 28:
		return vfOp(vfPick(r, []string{"match", "matchnot"}), sub(), vfConst(vfS(vfPick(r, []string{"^a", "b", "b$", "^$", "[0-9]", "a.b", "(a|B)"}))))
	case x < 30:
		return &vfExpr{op: "call", name: vfPick(r, []string{"VfInc", "VfPos", "VfTag", "VfSame"}), args: []*vfExpr{sub()}}
	case x < 32:
		c := vfPick(r, vfC25Cols)
		lo, hi := vfConst(vfPick(r, vfDomain(c.kind))), vfConst(vfPick(r, vfDomain(c.kind)))
		return vfOp("and", vfOp(vfPick(r, []string{"gt", "gte"}), vfColRef(c.name), lo), vfOp(vfPick(r, []string{"lt", "lte"}), vfColRef(c.name), hi))
	}
	return leaf()
}

// vfC25Arith: chains of 2-4 arithmetic operators over the numeric columns and constants whose quotients do not
// terminate (3, 7, 1.1, 17 ...), mostly * and /: the language evaluates a / b / c as a / (b * c), regroups
// products and keeps 16 digits, so the evaluator in the query engine has to round at the same places
func vfC25Arith(r *rand.Rand) *vfExpr {
	consts := []vfLit{vfInt(3), vfInt(7), vfDec("1.1"), vfInt(17), vfInt(-3), vfDec(".5"), vfInt(10), vfInt(9), vfDec(".7"), vfInt(1), vfInt(0)}
	operand := func() *vfExpr {
		switch r.IntN(5) {
		case 0, 1:
			return vfColRef("a")
		case 2:
			return vfColRef("c")
		}
		return vfConst(vfPick(r, consts))
	}
	// one flat chain of a single precedence class (the parser builds one n-ary node for it and the folder
	// regroups it), sometimes nested in a second one
	chain := func(cls int) *vfExpr {
		var pool []string
		switch cls {
		case 0:
			pool = []string{"div", "div", "div", "mul", "mul", "mod"}
		case 1:
			pool = []string{"add", "sub", "add", "sub", "sub"}
		default:
			pool = []string{"cat"}
		}
		e := &vfExpr{op: "chain", args: []*vfExpr{operand()}}
		for n := 2 + r.IntN(3); n > 0; n-- {
			e.ops = append(e.ops, vfPick(r, pool))
			e.args = append(e.args, operand())
		}
		return e
	}
	e := chain(vfPick(r, []int{0, 0, 0, 1, 2}))
	if r.IntN(4) == 0 {
		e = &vfExpr{op: "chain", args: []*vfExpr{e, operand(), chain(0)}, ops: []string{vfPick(r, []string{"add", "sub"}), "add"}}
	}
	return e
}

type vfC25Out struct {
	val Value
	err string
}

func (o vfC25Out) String() string {
	if o.err != "" {
		return "exception: " + o.err
	}
	return vfShow(o.val)
}

func vfC25Same(x, y vfC25Out) bool {
	if (x.err != "") != (y.err != "") {
		return false
	}
	if x.err != "" {
		return true // same exception class: both fail
	}
	return vfSame(x.val, y.val)
}

func vfC25Catch(f func() Value) (o vfC25Out) {
	p, _ := vk.Catch(func() {
		v := f()
		if _, ok := v.(Packable); !ok {
			panic("result cannot be stored")
		}
		o.val = vfNorm(v)
	})
	if p != nil {
		o = vfC25Out{err: vk.Trunc(fmt.Sprint(p), 80)}
	}
	return o
}

type vfC25Witness struct {
	Seed, Shard, Case int
	Expression        string
	Row               string
	Language          string
	Query             string
	Note              string
	Table             []string `json:",omitempty"`
}

func TestVerifC25(t *testing.T) {
	rep := vk.NewReport("C25",
		"random expression (70% type directed and failure free: comparisons, in, ranges, and/or/not, ternary, + - * $ unary -, user function calls; 30% wild: any operand kinds plus / % | & ^ << >> ~ =~ !~, may raise) "+
			"x 10 rows over columns a,c (numbers, some \"\"), b,s (strings), e (dates), h (booleans), f,m (any); a case is one (expression, row) pair evaluated by the interpreter, by the query evaluator with and without the packed-value path, "+
			"and (failure free expressions) by where / extend queries over the stored rows; non-trivial = the expression reads at least one column; distinct by (expression, row)",
		"the language result is the interpreter's (compile + core.Thread.Call), the property's reference; the harness's own evaluator is compared as a third opinion (class C25/harness-model-differs would mean the harness is wrong)",
		"left open as documented: (expression,row) pairs in which an ordering comparison meets \"\" and a number/boolean")
	defer rep.Finish()
	vfInitEngine()
	th := &Thread{}
	nexpr := vk.N(6000, 200000)
	const rowsPer = 10
	const perTable = 40
	names := vfColNames(vfC25Cols)
	for ei := 0; ei < nexpr; {
		// one stored table per batch of expressions
		bi := ei / perTable
		rt := vk.RandFor(25, bi)
		tbl := &vfTable{name: "t", cols: append([]vfCol{{"k", vfNum}}, vfC25Cols...), keys: [][]string{{"k"}}, allowEmpty: true}
		tbl.idxs = [][]string{{vfPick(rt, names)}, {vfPick(rt, names), vfPick(rt, names)}}
		if tbl.idxs[1][0] == tbl.idxs[1][1] {
			tbl.idxs = tbl.idxs[:1]
		}
		for i := 0; i < rowsPer; i++ {
			row := vfRow{"k": IntVal(i)}
			for _, c := range vfC25Cols {
				row[c.name] = vfGenValue(rt, tbl, c, false)
			}
			tbl.rows = append(tbl.rows, row)
		}
		d := &vfDB{tables: []*vfTable{tbl}}
		rep.Case("batch %d (creating table)", bi)
		d.create(rt)
		for j := 0; j < perTable && ei < nexpr; j, ei = j+1, ei+1 {
			vfC25Case(rep, d, tbl, ei, th)
		}
		d.close()
	}
}

func vfC25Case(rep *vk.Report, d *vfDB, tbl *vfTable, ei int, th *Thread) {
	r := vk.RandFor(2500, ei)
	safe := r.IntN(10) < 7
	var e *vfExpr
	isPred := false
	if safe {
		eg := &vfExprGen{r: r, cols: vfC25Cols, rel: &vfRel{cols: vfColNames(tbl.cols), rows: tbl.rows}}
		if r.IntN(2) == 0 {
			e, isPred = eg.pred(3), true
		} else {
			e = eg.value(vfPick(r, []vfKind{vfNum, vfStr, vfBool, vfMixed, vfDate}), 3)
		}
	} else if ei%4 == 3 {
		e = vfC25Arith(r)
		rep.Count("exprs_arithmetic_chains", 1)
	} else {
		e = vfC25Wild(r, 1+r.IntN(3))
	}
	src := e.text()
	rep.Case("expr %d: %s", ei, src)
	used := map[string]bool{}
	e.columns(used)
	h := map[string]int{}
	e.count(h)
	for op, n := range h {
		rep.Count("expr_"+op, n)
	}
	if safe {
		rep.Count("exprs_failure_free", 1)
	} else {
		rep.Count("exprs_wild", 1)
	}
	names := vfColNames(vfC25Cols)
	wit := func(row vfRow, lang vfC25Out, q string, note string) *vfC25Witness {
		w := &vfC25Witness{Seed: vk.Seed(), Shard: vk.Shard(), Case: ei, Expression: src, Language: lang.String(), Query: q, Note: note}
		if row != nil {
			w.Row = vfRowText(row, names)
		}
		return w
	}
	// (a) the language: compile once
	var fn Value
	cp, _ := vk.Catch(func() { fn = compile.Constant("function (" + strings.Join(names, ", ") + ") { return " + src + " }") })
	// (b),(c) the query expression evaluator: parse once per path
	parse := func(raw bool) (ast.Expr, any) {
		var x ast.Expr
		p, _ := vk.Catch(func() {
			qp := NewQueryParser(src, nil, nil)
			x = qp.Expression()
			if qp.Token != tok.Eof {
				panic("did not parse all input")
			}
			if raw {
				x.CanEvalRaw(names)
			} else {
				ast.Unraw(x)
			}
		})
		return x, p
	}
	xraw, praw := parse(true)
	xval, pval := parse(false)
	if (cp != nil) != (praw != nil) || (cp != nil) != (pval != nil) {
		// the constant folder is shared, so compile time failures must coincide
		rep.Eval(vk.Hash64(src, "compile"), len(used) > 0)
		rep.Violate("C25/compile-time-failure-differs", src, wit(nil, vfC25Out{err: fmt.Sprint(cp)}, fmt.Sprint("raw: ", praw, " unpacked: ", pval), "the expression is rejected by only one of language compile / query parse"))
		return
	}
	if cp != nil {
		rep.Count("rejected_at_compile_time", 1)
		rep.Eval(vk.Hash64(src, "compile"), false)
		return
	}
	hdr := SimpleHeader(vfColNames(tbl.cols))
	langOf := map[int]vfC25Out{}
	openRow := map[int]bool{}
	for ri, row := range tbl.rows {
		rep.Eval(vk.Hash64(src, vfRowText(row, names)), len(used) > 0)
		args := make([]Value, len(names))
		for i, n := range names {
			args[i] = row[n]
		}
		// a fresh interpreter thread per call: an exception leaves the value stack of a thread unbalanced
		lang := vfC25Catch(func() Value { return (&Thread{}).PushCall(fn, nil, &ArgSpec{Nargs: byte(len(args))}, args...) })
		langOf[ri] = lang
		if lang.err != "" {
			rep.Count("language_exceptions", 1)
		}
		// harness evaluator: third opinion + detection of the open comparisons
		ev := vfEval{}
		mine := vfC25Catch(func() Value { return ev.eval(e, row) })
		evr := vfEval{raw: true}
		vfC25Catch(func() Value { return evr.eval(e, row) })
		open := ev.open+evr.open > 0
		openRow[ri] = open
		if open {
			rep.Count("open_pairs", 1)
		}
		if safe && !open && !vfC25Same(lang, mine) {
			rep.Violate("C25/harness-model-differs", src+" on "+vfRowText(row, names), wit(row, lang, mine.String(), "harness evaluator disagrees with the interpreter"))
		}
		rec := vfRecord(tbl, row)
		ctxRow := Row{DbRec{Record: rec}}
		rawOut := vfC25Catch(func() Value { return xraw.Eval(&ast.RowContext{Th: &Thread{}, Hdr: hdr, Row: ctxRow}) })
		valOut := vfC25Catch(func() Value { return xval.Eval(&ast.RowContext{Th: &Thread{}, Hdr: hdr, Row: ctxRow}) })
		rep.Count("pairs", 1)
		if !vfC25Same(lang, valOut) {
			if open {
				rep.Count("open_differs_unpacked", 1)
			} else {
				cl := "C25/unpacked-eval-differs"
				if lang.err != "" || valOut.err != "" {
					cl = "C25/unpacked-eval-exception-differs"
				}
				if lbl := vfC25Diagnose(e, lang, valOut); lbl != "" {
					cl += "/" + lbl
				}
				rep.Violate(cl, src+" on "+vfRowText(row, names), wit(row, lang, valOut.String(), "query evaluator (values) differs from the language"))
			}
		}
		if !vfC25Same(lang, rawOut) {
			if open {
				rep.Count("open_differs_raw", 1)
			} else {
				cl := "C25/raw-eval-differs"
				if lang.err != "" || rawOut.err != "" {
					cl = "C25/raw-eval-exception-differs"
				}
				if lbl := vfC25Diagnose(e, lang, rawOut); lbl != "" {
					cl += "/" + lbl
				}
				rep.Violate(cl, src+" on "+vfRowText(row, names), wit(row, lang, rawOut.String(), "query evaluator (packed value path) differs from the language"))
			}
		}
	}
	if !safe {
		return
	}
	// (d) through real queries over the stored table
	cfg := vfCfg{name: "base", mode: ReadMode, setup: "setup", dir: Next}
	if r.IntN(3) == 0 {
		cfg.rbSeed = 1 + r.Uint64N(1<<40)
	}
	if isPred {
		qtext := "t where " + src
		res, stage, p, _ := vfExec(d, qtext, cfg, th)
		if p != nil {
			if !(stage == "setup" && vfIsRejection(p)) {
				cl := "C25/where-query-failed/" + stage
				if lbl := vfC25Diagnose(e, vfC25Out{}, vfC25Out{err: fmt.Sprint(p)}); lbl != "" {
					cl += "/" + lbl
				}
				rep.Violate(cl, qtext, wit(nil, vfC25Out{}, qtext, fmt.Sprint(p)))
			}
			return
		}
		rep.Count("where_queries", 1)
		got := map[string]bool{}
		for _, row := range res.rows {
			got[vfPack(row["k"])] = true
		}
		for ri, row := range tbl.rows {
			if openRow[ri] {
				continue
			}
			want := langOf[ri].err == "" && langOf[ri].val == True
			if got[vfPack(row["k"])] != want {
				w := wit(row, langOf[ri], qtext, fmt.Sprintf("where selects the row: %v, language says %v; strategy %s", !want, want, res.strategy))
				w.Table = d.describe()
				cl := "C25/where-differs"
				if want && strings.Contains(strings.ToLower(res.strategy), "nothing") && vfEmptyRangeInOr(e) {
					cl += "/where-or-with-empty-range-becomes-nothing"
				}
				rep.Violate(cl, qtext+" on "+vfRowText(row, names), w)
			}
			rep.Count("where_rows_checked", 1)
		}
	} else {
		qtext := "t extend x = " + src
		res, stage, p, _ := vfExec(d, qtext, cfg, th)
		if p != nil {
			if !(stage == "setup" && vfIsRejection(p)) {
				cl := "C25/extend-query-failed/" + stage
				if lbl := vfC25Diagnose(e, vfC25Out{}, vfC25Out{err: fmt.Sprint(p)}); lbl != "" {
					cl += "/" + lbl
				}
				rep.Violate(cl, qtext, wit(nil, vfC25Out{}, qtext, fmt.Sprint(p)))
			}
			return
		}
		rep.Count("extend_queries", 1)
		byK := map[string]vfRow{}
		for _, row := range res.rows {
			byK[vfPack(row["k"])] = row
		}
		for ri, row := range tbl.rows {
			if openRow[ri] || langOf[ri].err != "" {
				continue
			}
			grow := byK[vfPack(row["k"])]
			if grow == nil || !vfSame(grow["x"], langOf[ri].val) {
				act := "row missing"
				if grow != nil {
					act = vfShow(grow["x"])
				}
				w := wit(row, langOf[ri], qtext, "extend value "+act)
				w.Table = d.describe()
				rep.Violate("C25/extend-differs", qtext+" on "+vfRowText(row, names), w)
			}
			rep.Count("extend_rows_checked", 1)
		}
	}
}

// vfC25Diagnose recognises the analysed defects (known_findings.d/C25.jsonl).
func vfC25Diagnose(e *vfExpr, lang, other vfC25Out) string {
	// (both analysed defects - 10 / a in the evaluator, & and | short-circuit - are repaired: 0e34684, a3d0f9e)
	return ""
}

// vfHasConstDiv: a division (or a product containing one) whose left operand is a constant.
func vfHasConstDiv(e *vfExpr) bool {
	if e.op == "div" {
		l := e.args[0]
		for l.op == "paren" {
			l = l.args[0]
		}
		for l.op == "paren" || l.op == "neg" || l.op == "uplus" || l.op == "bitnot" {
			l = l.args[0]
		}
		if l.op == "const" || l.op == "mul" || l.op == "div" {
			return true
		}
	}
	for _, a := range e.args {
		if vfHasConstDiv(a) {
			return true
		}
	}
	return false
}

func vfHasOp(e *vfExpr, ops ...string) bool {
	for _, op := range ops {
		if e.op == op {
			return true
		}
	}
	for _, a := range e.args {
		if vfHasOp(a, ops...) {
			return true
		}
	}
	return false
}
