// C22 Query results do not depend on optimization or strategy.
// Random databases and random query trees; every query is executed by the real engine under many
// configurations (modes, Setup variants, requirements, random best-strategy choices, temp index and join
// reversal bias, Next/Prev) and every result is compared with the independent model of the query AS WRITTEN.
package query

import (
	"fmt"
	"math/rand/v2"
	"os"
	"slices"
	"strconv"
	"strings"
	"testing"

	. "github.com/apmckinlay/gsuneido/core"
	vk "github.com/apmckinlay/gsuneido/util/verifkit"
)

func vfC22Configs(r *rand.Rand, q *vfQuery, cols, scalar []string, n int) []vfCfg {
	cfgs := []vfCfg{
		{name: "base", mode: ReadMode, setup: "setup", dir: Next},
		{name: "base", mode: ReadMode, setup: "setup", dir: Prev},
	}
	dirs := []Dir{Next, Prev}
	pickFrom := func(cols []string, max int) []string {
		k := 1 + r.IntN(min(max, len(cols)))
		perm := r.Perm(len(cols))
		l := make([]string, k)
		for i := range l {
			l[i] = cols[perm[i]]
		}
		return l
	}
	for len(cfgs) < n {
		c := vfCfg{mode: ReadMode, setup: "setup", dir: vfPick(r, dirs)}
		switch x := r.IntN(20); {
		case x < 2:
			c.name, c.setup = "setup1", "setup1"
		case x < 4:
			c.name, c.mode = "update", UpdateMode
		case x < 6:
			c.name, c.mode, c.cursor = "cursor", CursorMode, true
		case x < 11:
			c.name, c.rbSeed = "random", 1+r.Uint64N(1<<40)
			c.mode = vfPick(r, []Mode{ReadMode, ReadMode, UpdateMode, CursorMode})
			c.cursor = c.mode == CursorMode
			c.ticost = vfPick(r, []int{0, 0, 9999999, -1000})
			c.joinRev = vfPick(r, []int{0, 0, impossible, -10})
		case x < 13:
			c.name = "bias"
			c.ticost = vfPick(r, []int{9999999, -1000})
			c.joinRev = vfPick(r, []int{0, impossible, -10})
		case x < 16:
			if len(scalar) == 0 {
				continue
			}
			c.name, c.setup, c.reqCols = "order", "order", pickFrom(scalar, 3)
		case x < 18:
			if len(cols) == 0 {
				continue
			}
			c.name, c.setup, c.reqCols = "group", "group", pickFrom(cols, 2)
		default:
			c.name, c.setup = "unique", "unique"
			c.reqCols = slices.Clone(cols)
			r.Shuffle(len(c.reqCols), func(i, j int) { c.reqCols[i], c.reqCols[j] = c.reqCols[j], c.reqCols[i] })
		}
		if c.setup != "setup" && c.setup != "setup1" {
			if len(q.sort) > 0 || len(cols) == 0 {
				continue // a request with sort only takes the plain requirement
			}
			if r.IntN(3) == 0 {
				c.rbSeed = 1 + r.Uint64N(1<<40)
			}
			if r.IntN(4) == 0 {
				c.mode = vfPick(r, []Mode{UpdateMode, CursorMode})
				c.cursor = c.mode == CursorMode
			}
		}
		cfgs = append(cfgs, c)
	}
	return cfgs
}

type vfC22Witness struct {
	Seed, Shard, DB, Case int
	Query                 string
	Config                string
	Strategy              string
	Database              []string
	ModelColumns          []string
	EngineColumns         []string
	OnlyInModel           []string
	OnlyInEngine          []string
	ModelRows             int
	EngineRows            int
	Note                  string
	Stack                 string `json:",omitempty"`
}

func TestVerifC22(t *testing.T) {
	rep := vk.NewReport("C22",
		"random database (3-5 tables over a shared typed column pool, 0-40 rows, keys/composite keys/indexes, part persisted part in index layers, views) x random query tree "+
			"(depth<=5 over table/view/where/project/remove/rename/extend/summarize/join/leftjoin/semijoin/times/union/intersect/minus, optional sort); "+
			"a case is one query text on one database, run under several configurations; non-trivial = at least 2 operators and at least 1 source row; distinct by (database, query text)",
		"trusted base: core value comparison/arithmetic/Pack (C13, C26-C28) used by the model for single values; the relational semantics are the harness's own",
		"cases in which an ordering comparison (< <= > >=, min, max, sort) meets \"\" and a number/boolean are left open as documented: there the engine may use either ordering",
		"randomBest/ticostAdj/joinRev are the repository's own test hooks for forcing strategies")
	defer rep.Finish()
	vfInitEngine()
	th := &Thread{}
	nq := vk.N(4000, 80000)
	ncfg := 8
	if vk.Thorough() {
		ncfg = 16
	}
	const perDB = 20
	if vk.Shard() == 0 {
		vfC22Probes(rep, th)
	}
	if dc := os.Getenv("VERIF_DEBUG_CASE"); dc != "" { // developer aid: run one generated case and dump the model
		qi, _ := strconv.Atoi(dc)
		d := vfGenDB(vk.RandFor(22, qi/perDB), 40)
		r := vk.RandFor(2200, qi)
		q := vfGenQuery(d, r, 1+r.IntN(5))
		for _, l := range d.describe() {
			fmt.Println(l)
		}
		if qs := os.Getenv("VERIF_DEBUG_QUERY"); qs != "" {
			for _, text := range strings.Split(qs, ";;") {
				dcfg := vfCfg{name: "base", mode: ReadMode, setup: "setup", dir: Next}
				if v, _ := strconv.ParseUint(os.Getenv("VERIF_DEBUG_RB"), 10, 64); v != 0 {
					dcfg.rbSeed = v
				}
				if os.Getenv("VERIF_DEBUG_NOREV") != "" {
					dcfg.joinRev = impossible
				}
				dcfg.ticost, _ = strconv.Atoi(os.Getenv("VERIF_DEBUG_TICOST"))
				res, stage, p, _ := vfExec(d, text, dcfg, th)
				fmt.Println("Q:", text, "\n  stage", stage, "panic", p)
				if res != nil {
					fmt.Println("  =>", res.strategy)
					for _, l := range vfRowsText(res.rows, res.cols, 50) {
						fmt.Println("     ", l)
					}
				}
			}
			return
		}
		vfDumpModel(d, q.root, 0)
		vfC22Check(rep, d, qi/perDB, qi, q, r, ncfg, th)
		return
	}
	for qi := 0; qi < nq; {
		dbi := qi / perDB
		rep.Case("db %d (generating)", dbi)
		d := vfGenDB(vk.RandFor(22, dbi), 40)
		for j := 0; j < perDB && qi < nq; j, qi = j+1, qi+1 {
			vfC22Case(rep, d, dbi, qi, ncfg, th)
		}
		d.close()
	}
}

func vfGenQuery(d *vfDB, r *rand.Rand, depth int) (q *vfQuery) {
	defer func() {
		if e := recover(); e != nil {
			if _, ok := e.(vfTooBig); ok {
				q = nil
				return
			}
			panic(e)
		}
	}()
	return vfNewGen(r, d).query(depth)
}

func vfC22Case(rep *vk.Report, d *vfDB, dbi, qi, ncfg int, th *Thread) {
	r := vk.RandFor(2200, qi)
	var q *vfQuery
	if qi%5 == 4 {
		// every fifth case: an index-aware shape (see zz_verif_qcommon_idxpattern_test.go)
		if q = vfGenIndexQuery(d, r); q != nil {
			rep.Count("index_aware_cases", 1)
		}
	}
	if qi%40 == 7 {
		// arithmetic on a column that is fixed to "" or false (zero in arithmetic)
		if q = vfGenFixedNonNumberQuery(d, r); q != nil {
			rep.Count("fixed_non_number_cases", 1)
		}
	}
	if qi%40 == 27 {
		// a where that is unique only together with a fixed value, looked up through a join
		if q = vfGenFixedKeyLookupQuery(d, r); q != nil {
			rep.Count("fixed_key_lookup_cases", 1)
		}
	}
	if q == nil {
		q = vfGenQuery(d, r, 1+r.IntN(5))
	}
	if q == nil {
		rep.Count("gen_too_big", 1)
		return
	}
	vfC22Check(rep, d, dbi, qi, q, r, ncfg, th)
}

// vfC22Check runs one query under ncfg configurations and compares every result with the model.
func vfC22Check(rep *vk.Report, d *vfDB, dbi, qi int, q *vfQuery, r *rand.Rand, ncfg int, th *Thread) {
	text := q.text()
	rep.Case("db %d case %d: %s", dbi, qi, text)
	relV, openV, packDis, big1 := vfModelResult2(d, q.root, false)
	relR, openR, big2 := vfModelResult(d, q.root, true)
	if big1 || big2 {
		rep.Count("model_too_big", 1)
		return
	}
	open := openV+openR > 0
	cols := relV.cols
	nontrivial := q.root.nops() >= 2 && d.totalRows() > 0
	rep.Eval(vk.Hash64(d.dbHash(), text), nontrivial)
	hist := map[string]int{}
	q.root.count(hist)
	for op, c := range hist {
		rep.Count("op_"+op, c)
	}
	if len(q.sort) > 0 {
		rep.Count("op_sort", 1)
	}
	ehist := map[string]int{}
	q.root.exprHist(ehist)
	for op, c := range ehist {
		rep.Count("expr_"+op, c)
	}
	if open {
		rep.Count("open_cases", 1)
	}
	if len(relV.rows) > 0 {
		rep.Count("cases_with_rows", 1)
	}
	if rep.WantSample() && q.root.nops() >= 3 {
		rep.Sample(map[string]any{"query": text, "model_rows": len(relV.rows), "tables": d.ddl})
	}
	witness := func(cfg vfCfg, res *vfResult, note string) *vfC22Witness {
		w := &vfC22Witness{Seed: vk.Seed(), Shard: vk.Shard(), DB: dbi, Case: qi, Query: text, Config: cfg.String(),
			Database: d.describe(), ModelColumns: cols, ModelRows: len(relV.rows), Note: note}
		if res != nil {
			w.Strategy = res.strategy
			w.EngineColumns = res.cols
			w.EngineRows = len(res.rows)
		}
		return w
	}
	key := func(cfg vfCfg) string {
		return fmt.Sprintf("%s  [%s]  db=%d/%d/%d", text, cfg, vk.Seed(), vk.Shard(), dbi)
	}
	for ci, cfg := range vfC22Configs(r, q, cols, vfColNames(vfScalarCols(q.root.out)), ncfg) {
		res, stage, p, stack := vfExec(d, text, cfg, th)
		if p != nil {
			if stage == "parse" {
				// the generator is supposed to produce valid queries only: count and show
				rep.Count("rejected_queries", 1)
				rep.Seen("rejections", vk.Trunc(fmt.Sprint(p), 60))
				return
			}
			if stage == "setup" && vfIsRejection(p) {
				rep.Count("rejected_configs", 1)
				rep.Count("rejected_configs_"+cfg.name, 1)
				continue
			}
			cl := "C22/engine-panic/" + stage + "/" + vfPanicSite(p, stack)
			if lbl := vfC22Diagnose("panic-"+stage, fmt.Sprint(p), stack, res, q, cols, false); lbl != "" {
				cl = "C22/engine-panic/" + stage + "/" + lbl
			}
			w := witness(cfg, res, fmt.Sprint(p))
			w.Stack = vk.Trunc(stack, 3000)
			rep.Violate(cl, key(cfg), w)
			continue
		}
		rep.Count("configs_run", 1)
		rep.Count("cfg_"+cfg.name, 1)
		rep.Count("rows_compared", len(res.rows))
		rep.Seen("strategies", res.sig)
		if n := strings.Count(res.sig, "tempindex"); n > 0 {
			rep.Count("tempindex_nodes", n)
		}
		if ci == 0 && len(res.rows) > 0 {
			rep.Count("cases_engine_rows", 1)
		}
		if !vfSameSet(res.cols, cols) {
			cl := "C22/columns-differ"
			if lbl := vfC22Diagnose("columns", "", "", res, q, cols, false); lbl != "" {
				cl += "/" + lbl
			}
			rep.Violate(cl, key(cfg), witness(cfg, res, "result columns differ from the query as written"))
			continue
		}
		onlyM, onlyE := vfDiff(relV.rows, res.rows, cols)
		if len(onlyM)+len(onlyE) > 0 {
			if open {
				m2, e2 := vfDiff(relR.rows, res.rows, cols)
				if len(m2)+len(e2) == 0 {
					rep.Count("open_matched_stored_ordering", 1)
				} else {
					rep.Count("open_unmatched", 1)
				}
			} else if (strings.Contains(text, "average") || strings.Contains(text, "total")) && vfDiffOnlyRoundingOrder(relV.rows, res.rows, cols) {
				rep.Count("sum_rounding_order_differences", 1) // 16-digit sums of quotients: the last digits depend on the row order
			} else {
				w := witness(cfg, res, "row multiset differs from the model of the query as written")
				w.OnlyInModel, w.OnlyInEngine = vfTruncList(onlyM, 12), vfTruncList(onlyE, 12)
				cl := "C22/rows-differ"
				if len(onlyE) > 0 && len(onlyM) == 0 {
					cl = "C22/rows-differ/extra-or-duplicate"
				} else if len(onlyE) == 0 {
					cl = "C22/rows-differ/missing"
				}
				kind, m := "rows", ""
				if len(onlyM) == 0 {
					m = "extra-only"
				}
				lbl := vfC22Diagnose(kind, m, "", res, q, cols, len(onlyM) == 0 && vfAllIn(onlyE, relV.rows, cols))
				if lbl == "" && packDis > 0 {
					lbl = vfC22Diagnose("rows+packorder", "", "", res, q, cols, false)
				}
				if lbl != "" {
					cl = "C22/rows-differ/" + lbl
				}
				if vfMatchesWhereBeforeRecordSummarize(d, q.root, res.rows, cols) {
					cl = "C22/rows-differ/where-conjunct-applied-before-record-returning-summarize"
				}
				rep.Violate(cl, key(cfg), w)
			}
			continue
		}
		// ordering promised by sort / by an order requirement
		if len(q.sort) > 0 {
			rev := q.reverse != (cfg.dir == Prev)
			if i, pk := vfOrdered2(res.rows, q.sort, rev); i >= 0 {
				vfPackOrderPair = pk
				w := witness(cfg, res, fmt.Sprintf("sort order violated at row %d: %s then %s", i, vfRowText(res.rows[i-1], q.sort), vfRowText(res.rows[i], q.sort)))
				cl := "C22/sort-order"
				if lbl := vfC22Diagnose("order", "", "", res, q, cols, false); lbl != "" {
					cl += "/" + lbl
				}
				rep.Violate(cl, key(cfg), w)
			}
			rep.Count("order_checks", 1)
		} else if cfg.setup == "order" {
			if i, pk := vfOrdered2(res.rows, cfg.reqCols, cfg.dir == Prev); i >= 0 {
				vfPackOrderPair = pk
				w := witness(cfg, res, fmt.Sprintf("required order violated at row %d: %s then %s", i, vfRowText(res.rows[i-1], cfg.reqCols), vfRowText(res.rows[i], cfg.reqCols)))
				cl := "C22/required-order"
				if lbl := vfC22Diagnose("order", "", "", res, q, cols, false); lbl != "" {
					cl += "/" + lbl
				}
				rep.Violate(cl, key(cfg), w)
			}
			rep.Count("order_checks", 1)
		}
	}
}
