// C02 (second unit): snapshot semantics seen through the query layer.
//
// The db19-level unit (dbsim) watches lookups and index scans of transactions. This unit watches what a
// program actually uses: queries. For a generated database and query text it checks, with the engine as its
// own reference (same query text, same forced strategy, so that optimizer defects recorded under C22 cancel out):
//
//	A  an update transaction that changed tables through statements sees, through a query it opened BEFORE
//	   the changes (rewound) and through a query opened after them, exactly the rows that a fresh transaction
//	   sees once the update transaction has committed (snapshot + own changes = the state it commits);
//	B  a read transaction opened before those changes still returns, after the commit, exactly the rows it
//	   returned before (through the query object it kept open, rewound, and through a newly opened one).
//
// Nothing concurrent runs here, so the state committed by the update transaction is exactly its view.
package query

import (
	"strconv"
	"os"
	"fmt"
	"math/rand/v2"
	"regexp"
	"sort"
	"strings"
	"testing"

	. "github.com/apmckinlay/gsuneido/core"
	"github.com/apmckinlay/gsuneido/db19"
	"github.com/apmckinlay/gsuneido/db19/stor"
	vk "github.com/apmckinlay/gsuneido/util/verifkit"
)

type vfC02View struct {
	q    Query
	sig  string
	cols []string
}

// vfC02Open parses and sets up text in tran with the strategy forced by rbSeed (randomBest), so that two
// openings of the same text use the same strategy whatever the table sizes are.
func vfC02Open(text string, tran QueryTran, mode Mode, rbSeed uint64) (v *vfC02View, p any) {
	defer func(rb *rand.Rand, ti, jr int) { randomBest, ticostAdj, joinRev = rb, ti, jr }(randomBest, ticostAdj, joinRev)
	randomBest = rand.New(rand.NewPCG(rbSeed, 99))
	ticostAdj, joinRev = 0, 0
	p, _ = vk.Catch(func() {
		q := ParseQuery(text, tran, nil)
		q, _, _ = Setup(q, mode, tran)
		v = &vfC02View{q: q, sig: vfSig(q), cols: vfC02Cols(q)}
	})
	return
}

// vfC02Cols: the result columns in a canonical (sorted) order, so that rows of two openings of the same
// text compare equal whatever column order their strategies produce
func vfC02Cols(q Query) []string {
	cols := append([]string(nil), q.Header().Columns...)
	sort.Strings(cols)
	return cols
}

func (v *vfC02View) read(th *Thread) (rows []string, p any) {
	p, _ = vk.Catch(func() {
		v.q.Rewind()
	})
	if p != nil {
		return nil, p
	}
	rs, p, _ := vfReadAll(v.q, Next, th)
	if p != nil {
		return nil, p
	}
	rows = make([]string, len(rs))
	for i, r := range rs {
		rows[i] = vfRowText(r, v.cols)
	}
	sort.Strings(rows)
	return rows, nil
}

func vfC02Diff(a, b []string) (onlyA, onlyB []string) {
	i, j := 0, 0
	for i < len(a) || j < len(b) {
		switch {
		case j >= len(b) || (i < len(a) && a[i] < b[j]):
			onlyA = append(onlyA, a[i])
			i++
		case i >= len(a) || b[j] < a[i]:
			onlyB = append(onlyB, b[j])
			j++
		default:
			i++
			j++
		}
	}
	return
}

func TestVerifC02Q(t *testing.T) {
	rep := vk.NewReport("C02",
		"query-level unit: random database (as C22) x random query text (depth<=4) x 1-3 generated statements (insert/update/delete, as C24) run in one update transaction; "+
			"the query is read in that transaction before the changes, after them (the same query object rewound, and a newly opened one) and in a fresh transaction after the commit, "+
			"and in a read transaction opened before the changes (before and after the commit); non-trivial = the statements changed at least one row of a table the query reads; "+
			"distinct by (database state, query text, statements)",
		"reference = the engine itself with the same forced strategy (randomBest seed) on the committed state, so query-optimizer defects (C22) cancel out; cases where the strategy signatures differ or the engine panics are skipped and counted",
		"no concurrent transactions run in this unit: the committed state equals the update transaction's own view")
	defer rep.Finish()
	vfInitEngine()
	// as in production (dbms.init): a query knows whether its transaction is an update transaction
	MakeSuTran = func(qt QueryTran) *SuTran {
		_, upd := qt.(*db19.UpdateTran)
		return NewSuTran(nil, upd)
	}
	th := &Thread{}
	n := vk.N(1200, 60000)
	const perDB = 8
	ci0 := 0
	if s := os.Getenv("VERIF_C02Q_DB"); s != "" { // development aid: only the cases of one generated database
		dbi, _ := strconv.Atoi(s)
		ci0, n = dbi*perDB, dbi*perDB+perDB
	}
	for ci := ci0; ci < n; {
		dbi := ci / perDB
		rep.Case("query-unit db %d (generating)", dbi)
		d := vfGenDB(vk.RandFor(202, dbi), 30)
		for j := 0; j < perDB && ci < n; j, ci = j+1, ci+1 {
			vfC02QCase(rep, d, dbi, ci, th)
		}
		d.close()
	}
	// lookup joins read part-way, then changed by the same transaction
	for i, nl := 0, vk.N(1600, 80000); i < nl; i++ {
		vfC02LookupCase(rep, i, th)
	}
}

func vfC02QCase(rep *vk.Report, d *vfDB, dbi, ci int, th *Thread) {
	r := vk.RandFor(20200, ci)
	q := vfGenQuery(d, r, 1+r.IntN(4))
	if q == nil {
		rep.Count("q_gen_too_big", 1)
		return
	}
	text := q.text()
	rbSeed := 1 + r.Uint64N(1<<40)
	g := &vfC24Gen{r: r, d: d}
	var stmts []*vfStmt
	func() {
		defer func() {
			if e := recover(); e != nil {
				if _, ok := e.(vfTooBig); !ok {
					panic(e)
				}
			}
		}()
		for k := 1 + r.IntN(3); k > 0; k-- {
			t := vfPick(r, d.tables)
			var st *vfStmt
			switch x := r.IntN(10); {
			case x < 4:
				st = g.insertRecord(t)
			case x < 8:
				st = g.update(t)
			default:
				st = g.delete(t)
			}
			if st != nil {
				stmts = append(stmts, st)
			}
		}
	}()
	if len(stmts) == 0 {
		rep.Count("q_no_statement", 1)
		return
	}
	var stText []string
	for _, st := range stmts {
		stText = append(stText, st.text)
	}
	rep.Case("query-unit db %d case %d: %s  <<  %s", dbi, ci, text, strings.Join(stText, " ;; "))
	key := fmt.Sprintf("%s  <<  %s  db=%d/%d/%d case=%d", text, strings.Join(stText, " ;; "), vk.Seed(), vk.Shard(), dbi, ci)
	skip := func(why string) { rep.Count("q_skipped_"+why, 1) }
	resync := func() {
		for _, t := range d.tables {
			vfC24Resync(d, t, th)
		}
		d.desc = nil
		d.hash = 0
	}

	rt0 := d.db.NewReadTran()
	ut := d.db.NewUpdateTran()
	aborted := false
	defer func() {
		if !aborted {
			ut.Abort()
		}
	}()
	vr0, p := vfC02Open(text, rt0, ReadMode, rbSeed)
	if p != nil {
		skip("open_failed")
		return
	}
	r0before, p := vr0.read(th)
	if p != nil {
		skip("engine_panic")
		return
	}
	vu, p := vfC02Open(text, ut, UpdateMode, rbSeed)
	if p != nil {
		skip("open_failed")
		return
	}
	uBefore, p := vu.read(th)
	if p != nil {
		skip("engine_panic")
		return
	}
	// the transaction's own changes
	changed := 0
	for _, st := range stmts {
		var got int
		p, _ := vk.Catch(func() { got = DoAction(th, ut, st.text) })
		if p != nil {
			// a refused statement (duplicate key, ...) aborts the transaction: nothing to compare
			aborted = true
			ut.Abort()
			rep.Count("q_statement_refused", 1)
			return
		}
		changed += got
	}
	uRewound, p := vu.read(th)
	if p != nil {
		skip("engine_panic")
		return
	}
	vu2, p := vfC02Open(text, ut, UpdateMode, rbSeed)
	if p != nil {
		skip("open_failed")
		return
	}
	uFresh, p := vu2.read(th)
	if p != nil {
		skip("engine_panic")
		return
	}
	aborted = true
	d.db.CommitMerge(ut)
	defer resync()
	// reference: a fresh update transaction on the committed state, same text, same forced strategy
	ut3 := d.db.NewUpdateTran()
	defer ut3.Abort()
	vc, p := vfC02Open(text, ut3, UpdateMode, rbSeed)
	if p != nil {
		skip("open_failed")
		return
	}
	committed, p := vc.read(th)
	if p != nil {
		skip("engine_panic")
		return
	}
	// the read transaction opened before the changes
	r0after, p1 := vr0.read(th)
	vr0b, p2 := vfC02Open(text, rt0, ReadMode, rbSeed)
	var r0fresh []string
	var p3 any
	if p2 == nil {
		r0fresh, p3 = vr0b.read(th)
	}
	if p1 != nil || p2 != nil || p3 != nil {
		skip("engine_panic")
		return
	}
	touches := changed > 0 && len(committed)+len(uBefore) > 0
	rep.Eval(vk.Hash64("q", d.dbHashNow(), text, strings.Join(stText, ";")), touches)
	rep.Count("q_cases", 1)
	rep.Count("q_rows_changed_by_own_statements", changed)
	if len(vfC02DiffAny(uBefore, committed)) > 0 {
		rep.Count("q_cases_where_result_changed", 1)
	}
	if rep.WantSample() && touches && ci%5 == 0 {
		rep.Sample(map[string]any{"unit": "query", "query": text, "statements": stText, "rows_before": len(uBefore), "rows_after_own_changes": len(uRewound), "rows_committed": len(committed)})
	}
	wit := func(note string, a, b []string) map[string]any {
		oa, ob := vfC02Diff(a, b)
		return map[string]any{"query": text, "statements": stText, "note": note, "database_after": d.describe(),
			"only_in_first": vfTruncList(oa, 10), "only_in_second": vfTruncList(ob, 10), "strategy": String(vc.q),
			"seed": vk.Seed(), "shard": vk.Shard(), "db": dbi, "case": ci}
	}
	same := func(a, b []string) bool { oa, ob := vfC02Diff(a, b); return len(oa)+len(ob) == 0 }
	// A: own changes visible
	// a strategy that materialises intermediate results on first read (temporary index, summarize/project map)
	// keeps them when the query is rewound: that is how those strategies are defined, not a visibility failure,
	// so the rewound comparison is made only for strategies that read through to the indexes
	materialises := strings.Contains(vu.sig, "tempindex") || strings.Contains(vu.sig, "-map") || strings.Contains(vu.sig, "-hash") ||
		strings.Contains(vu.sig, "-tbl") || strings.Contains(vu.sig, "project-none") // project-none remembers "source has a row"
	if materialises {
		skip("rewound_materialising_strategy")
	} else if vu.sig == vc.sig {
		rep.Count("q_checked_rewound", 1)
		if !same(uRewound, committed) {
			rep.Violate("C02/query/update-transaction-does-not-see-its-own-changes/open-query-rewound", key,
				wit("first = rows the update transaction reads (query opened before its changes, rewound) after its own statements; second = rows of the committed state", uRewound, committed))
		}
	} else {
		skip("strategy_differs")
	}
	if vu2.sig == vc.sig {
		rep.Count("q_checked_fresh", 1)
		if !same(uFresh, committed) {
			rep.Violate("C02/query/update-transaction-does-not-see-its-own-changes/new-query", key,
				wit("first = rows the update transaction reads (query opened after its own statements); second = rows of the committed state", uFresh, committed))
		}
	} else {
		skip("strategy_differs")
	}
	// B: the earlier read transaction is unaffected by the commit
	rep.Count("q_checked_read_snapshot", 1)
	if !same(r0before, r0after) {
		rep.Violate("C02/query/read-transaction-result-changed-after-later-commit/open-query-rewound", key,
			wit("first = rows the read transaction returned before the other transaction's changes; second = the same query object rewound after that transaction committed", r0before, r0after))
	}
	if vr0b.sig == vr0.sig && !same(r0before, r0fresh) {
		rep.Violate("C02/query/read-transaction-result-changed-after-later-commit/new-query", key,
			wit("first = rows the read transaction returned before the other transaction's changes; second = a newly opened query in the same read transaction after the commit", r0before, r0fresh))
	}
	// the update transaction started from the same snapshot as the read transaction
	// (ReadMode and UpdateMode may choose different strategies; recorded only as information)
	if !same(uBefore, r0before) {
		rep.Count("q_update_vs_read_initial_differs_info", 1)
	}
}

func vfC02DiffAny(a, b []string) []string {
	oa, ob := vfC02Diff(a, b)
	return append(oa, ob...)
}

// ---- lookup joins: own changes seen by lookups made after them (mid-iteration) ---------------------------

// vfC02LookupCase: lines(n, id, qty) key(n) x cust(id, name, grp) key(id). A join/leftjoin/semijoin whose
// second source is looked up by its key per row of the first is read part-way in an update transaction; the
// transaction then changes cust (renames, deletes, inserts); the rows read afterwards each involve a lookup
// made after the change, so every one of them must be a row of the state the transaction commits (lines is
// not changed, so nothing that was fetched earlier can be stale). Strategies that copy (temporary index) or
// that do not look cust up per row are skipped.
func vfC02LookupCase(rep *vk.Report, ci int, th *Thread) {
	r := vk.RandFor(20201, ci)
	st := stor.HeapStor(64 * 1024)
	st.Alloc(1)
	db := db19.CreateDb(st)
	db.CheckerSync()
	defer db.Close()
	DoAdmin(db, "create cust (id, name, grp) key(id)", nil)
	DoAdmin(db, "create lines (n, id, qty) key(n) index(id)", nil)
	ncust := 2 + r.IntN(60)
	nlines := 4 + r.IntN(60)
	ut0 := db.NewUpdateTran()
	ids := make([]string, ncust)
	for i := range ids {
		ids[i] = fmt.Sprintf("c%03d", i)
		if r.IntN(8) != 0 { // some ids have no cust row
			DoAction(th, ut0, fmt.Sprintf("insert { id: %q, name: %q, grp: %d } into cust", ids[i], "name-"+ids[i], r.IntN(3)))
		}
	}
	hot := 1 + r.IntN(min(6, ncust)) // the lines refer to few ids, so lookups repeat
	for i := 0; i < nlines; i++ {
		DoAction(th, ut0, fmt.Sprintf("insert { n: %d, id: %q, qty: %d } into lines", i, ids[r.IntN(hot)], r.IntN(10)))
	}
	db.CommitMerge(ut0)
	if r.IntN(2) == 0 {
		db.PersistSync()
	}
	texts := []string{"lines join by(id) cust", "lines leftjoin by(id) cust", "lines join cust", "(lines where qty > 2) leftjoin by(id) cust",
		"lines semijoin by(id) cust", "lines join by(id) (cust where grp < 2)", "(lines leftjoin by(id) cust) where qty < 8", "lines join by(id) cust sort n"}
	text := texts[r.IntN(len(texts))]
	rbSeed := uint64(0)
	if r.IntN(3) == 0 {
		rbSeed = 1 + r.Uint64N(1<<40)
	}
	open := func(tran QueryTran) (*vfC02View, any) {
		if rbSeed != 0 {
			return vfC02Open(text, tran, UpdateMode, rbSeed)
		}
		var v *vfC02View
		p, _ := vk.Catch(func() {
			q := ParseQuery(text, tran, nil)
			q, _, _ = Setup(q, UpdateMode, tran)
			v = &vfC02View{q: q, sig: vfSig(q), cols: vfC02Cols(q)}
		})
		return v, p
	}
	rep.Case("lookup-join case %d: %s (cust %d lines %d hot %d rb %d)", ci, text, ncust, nlines, hot, rbSeed)
	ut := db.NewUpdateTran()
	done := false
	defer func() {
		if !done {
			ut.Abort()
		}
	}()
	v, p := open(ut)
	if p != nil {
		rep.Count("lk_skipped_open_failed", 1)
		return
	}
	strategy := String(v.q)
	lookupShape := regexp.MustCompile(`(join|leftjoin|semijoin) (n:1|1:1) by\(id\) \(?cust`)
	if strings.Contains(strategy, "tempindex") || !lookupShape.MatchString(strategy) {
		rep.Count("lk_skipped_not_a_per_row_lookup_strategy", 1)
		return
	}
	rowText := func(row Row) string {
		return vfRowText(vfRowOf(v.q.Header(), v.cols, row, th), v.cols)
	}
	var pre, post []string
	k := 1 + r.IntN(nlines)
	var changes []string
	p, _ = vk.Catch(func() {
		for len(pre) < k {
			row := v.q.Get(th, Next)
			if row == nil {
				return
			}
			pre = append(pre, rowText(row))
		}
		// the transaction's own changes to the looked-up table
		for n := 1 + r.IntN(3); n > 0; n-- {
			id := ids[r.IntN(hot)]
			var s string
			switch r.IntN(5) {
			case 0:
				s = `update cust set name = name $ "!"`
			case 1:
				s = fmt.Sprintf(`update cust where id is %q set name = "changed", grp = 1`, id)
			case 2:
				s = fmt.Sprintf(`delete cust where id is %q`, id)
			case 3:
				s = fmt.Sprintf(`update cust where id is %q set grp = grp + 1`, id)
			default:
				s = fmt.Sprintf(`insert { id: %q, name: "new", grp: 0 } into cust`, id)
			}
			DoAction(th, ut, s) // a refusal (duplicate key) ends the case: caught below
			changes = append(changes, s)
		}
		for {
			row := v.q.Get(th, Next)
			if row == nil {
				return
			}
			post = append(post, rowText(row))
		}
	})
	if p != nil {
		rep.Count("lk_skipped_failed_or_refused", 1)
		return
	}
	done = true
	db.CommitMerge(ut)
	ut2 := db.NewUpdateTran()
	defer ut2.Abort()
	vc, p := open(ut2)
	if p != nil {
		rep.Count("lk_skipped_open_failed", 1)
		return
	}
	committed, p := vc.read(th)
	if p != nil {
		rep.Count("lk_skipped_failed_or_refused", 1)
		return
	}
	rep.Eval(vk.Hash64("lk", text, ncust, nlines, hot, k, strings.Join(changes, ";"), rbSeed), len(post) > 0 && len(changes) > 0)
	rep.Count("lk_cases", 1)
	rep.Count("lk_rows_read_after_own_changes", len(post))
	rep.Seen("lk_strategies", vk.Trunc(strategy, 120))
	have := map[string]int{}
	for _, s := range committed {
		have[s]++
	}
	var stale []string
	for _, s := range post {
		if have[s] == 0 {
			stale = append(stale, s)
		} else {
			have[s]--
		}
	}
	if len(stale) > 0 {
		rep.Violate("C02/query/lookup-after-own-change-returns-a-row-that-is-not-in-the-transactions-view",
			fmt.Sprintf("%s  <<  %s  seed=%d/%d case=%d", text, strings.Join(changes, " ;; "), vk.Seed(), vk.Shard(), ci),
			map[string]any{"query": text, "strategy": strategy, "rows_read_before_the_changes": len(pre), "own_changes": changes,
				"rows_read_after_the_changes_that_are_not_rows_of_the_committed_state": vfTruncList(stale, 10), "committed_rows": vfTruncList(committed, 12)})
	}
}
