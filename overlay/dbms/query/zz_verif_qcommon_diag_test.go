// Shared by C22-C25: recognising the analysed engine defects from a failure, so that each gets its own
// violation class (see known_findings.d/*.jsonl) and anything else keeps a generic class.
package query

import (
	"fmt"
	"slices"
	"strings"
)

var vfPackOrderPair bool

// vfC22Diagnose recognises the engine defects that were analysed (see known_findings.d/C22.jsonl) from the
// failure itself, so that each gets its own violation class and any other failure keeps a generic class.
func vfC22Diagnose(kind, msg, stack string, res *vfResult, q *vfQuery, cols []string, onlyDups bool) string {
	if strings.HasPrefix(kind, "rows") && strings.HasSuffix(kind, "+packorder") {
		return "packed-number-order-differs-from-value-order"
	}
	subsetBy := vfHasNode(q.root, func(n *vfNode) bool {
		return n.op == "semijoin" && n.printBy && len(n.cols) > 0 && len(vfCommon(n.src.out, n.src2.out)) > len(n.cols)
	})
	strategy := ""
	var ecols []string
	if res != nil {
		strategy, ecols = res.strategy, res.cols
	}
	// a summarize without by columns that has (or can be reduced by a project to) a single min/max
	minmaxNoBy := vfHasNode(q.root, func(n *vfNode) bool {
		return n.op == "summarize" && len(n.cols) == 0 && (slices.Contains(n.sops, "min") || slices.Contains(n.sops, "max"))
	})
	if strings.HasPrefix(kind, "panic-") && kind != "panic-setup" {
		kind = "panic-get"
	}
	switch kind {
	case "panic-get":
		if strings.Contains(stack, "ProjectNone).hasRow") && (strings.Contains(stack, "query.hashCols") || strings.Contains(stack, "(*Thread).PushCall")) {
			return "ProjectNone.hasRow-nil-thread"
		}
		if strings.Contains(stack, "(*SemiJoin).Select") && strings.Contains(strategy, "semijoin-rev") &&
			(strings.Contains(msg, "Sels.Get can't find") || strings.Contains(stack, "query.selEnd")) {
			if subsetBy {
				return "semijoin-reverse-requirement-on-non-by-column"
			}
			return "semijoin-reverse-select-off-index"
		}
		if strings.Contains(msg, "selOrg not full") && strings.Contains(stack, "(*Union).getLookup") &&
			strings.Contains(stack, "(*Compatible).source2Has") && strings.Contains(strategy, "union-disjoint(") {
			return "union-disjoint-lookup-source2Has"
		}
		if strings.Contains(stack, "(*Intersect).Lookup") && (strings.Contains(msg, "Sels.Get can't find") || strings.Contains(msg, "selOrg not full")) {
			return "intersect-with-singleton-lookup-without-selections"
		}
	case "order":
		if vfPackOrderPair {
			return "packed-number-order-differs-from-value-order"
		}
		// order taken from the second source of a reversed semijoin by(...) although the column is not a by column
		if strings.Contains(strategy, "semijoin-rev") && vfHasNode(q.root, func(n *vfNode) bool {
			return n.op == "semijoin" && n.printBy && len(n.cols) > 0 && len(vfCommon(n.src.out, n.src2.out)) > len(n.cols)
		}) {
			return "semijoin-reverse-order-from-source2"
		}
	case "panic-setup":
		if minmaxNoBy && (strings.Contains(msg, "column already exists") || strings.Contains(msg, "common columns not allowed") ||
			strings.Contains(msg, "nonexistent column") || strings.Contains(msg, "already exist") ||
			strings.Contains(msg, "by does not match common columns")) {
			return "summarize-record-after-transform"
		}
	case "columns":
		if minmaxNoBy && vfSubset(cols, ecols) && len(ecols) > len(cols) {
			return "summarize-record-after-transform"
		}
	case "rows":
		c23 := strings.HasPrefix(msg, "c23") // Select / Lookup of a C23 call program
		if subsetBy && strings.Contains(strategy, "semijoin-rev") {
			return "semijoin-reverse-requirement-on-non-by-column"
		}
		if c23 && minmaxNoBy && strings.Contains(strategy, "summarize-idx") {
			return "summarize-idx-select-on-aggregated-column"
		}
		if c23 && strings.Contains(strategy, " where ") && vfHasNode(q.root, func(n *vfNode) bool {
			return n.op == "where" && vfHasEmptyAlternative(n.expr)
		}) {
			return "where-index-range-empty-value-overlap"
		}
		if strings.Contains(strings.ToLower(strategy), "nothing") && vfHasEmptyRangeInOr(q.root) {
			return "where-or-with-empty-range-becomes-nothing"
		}
		// a min/max summarize that returns the record, below a project/remove, and no summarize left in the strategy
		if !strings.Contains(strategy, "summarize") && vfHasNode(q.root, func(n *vfNode) bool { return n.wholeRow }) {
			return "summarize-record-after-transform"
		}
		// only duplicates of correct rows, and some where tests a column against "" among other values
		if onlyDups && strings.Contains(strategy, " where ") && vfHasNode(q.root, func(n *vfNode) bool {
			return n.op == "where" && vfHasEmptyAlternative(n.expr)
		}) {
			return "where-index-range-empty-value-overlap"
		}
		// the by-less min/max summarize is an operand of another operator and runs with the index strategy
		if strings.Contains(strategy, "summarize-idx") && vfHasNode(q.root, func(n *vfNode) bool {
			return n != q.root && n.op == "summarize" && len(n.cols) == 0 && (slices.Contains(n.sops, "min") || slices.Contains(n.sops, "max"))
		}) {
			return "summarize-idx-select-on-aggregated-column"
		}
	}
	return ""
}

func vfDumpModel(d *vfDB, n *vfNode, indent int) {
	if n == nil {
		return
	}
	vfDumpModel(d, n.src, indent+1)
	vfDumpModel(d, n.src2, indent+1)
	if n.def != nil {
		vfDumpModel(d, n.def, indent+1)
	}
	rel, _, _ := vfModelResult(d, n, false)
	in := strings.Repeat("  ", indent)
	fmt.Println(in+"## ", n.text())
	if rel != nil {
		for _, l := range vfRowsText(rel.rows, rel.cols, 30) {
			fmt.Println(in+"     ", l)
		}
	}
}

// vfAllIn: every row text of extra occurs among rows (i.e. the extra rows are duplicates of correct rows).
func vfAllIn(extra []string, rows []vfRow, cols []string) bool {
	have := map[string]bool{}
	for _, r := range rows {
		have[vfRowText(r, cols)] = true
	}
	for _, e := range extra {
		if !have[e] {
			return false
		}
	}
	return len(extra) > 0
}

// vfHasEmptyAlternative: an in list or an or of equalities that contains the constant "".
func vfHasEmptyAlternative(e *vfExpr) bool {
	if e == nil {
		return false
	}
	if e.op == "in" || e.op == "or" {
		var has func(x *vfExpr) bool
		has = func(x *vfExpr) bool {
			if x.op == "const" && vfIsEmpty(x.lit.v) {
				return true
			}
			for _, a := range x.args {
				if has(a) {
					return true
				}
			}
			return false
		}
		if has(e) {
			return true
		}
	}
	for _, a := range e.args {
		if vfHasEmptyAlternative(a) {
			return true
		}
	}
	return false
}
