// Shared by C22-C25: running a query text in the real engine under a configuration, reading rows,
// strategy signatures, and comparing with the model.
package query

import (
	"fmt"
	"math/rand/v2"
	"reflect"
	"slices"
	"sort"
	"strings"

	. "github.com/apmckinlay/gsuneido/core"
	"github.com/apmckinlay/gsuneido/db19"
	"github.com/apmckinlay/gsuneido/util/dnum"
	vk "github.com/apmckinlay/gsuneido/util/verifkit"
)

// vfCfg is one way of preparing and reading a query.
type vfCfg struct {
	name    string
	mode    Mode
	setup   string // setup setup1 order group unique
	reqCols []string
	rbSeed  uint64 // 0 = cost based choice, else seed of randomBest
	ticost  int
	joinRev int
	dir     Dir
	cursor  bool // CursorMode: SetTran with a new transaction before reading
}

func (c vfCfg) String() string {
	s := fmt.Sprintf("%s/%s/%s", c.name, c.mode, c.setup)
	if len(c.reqCols) > 0 {
		s += "(" + strings.Join(c.reqCols, ",") + ")"
	}
	if c.rbSeed != 0 {
		s += fmt.Sprintf("/randomBest=%d", c.rbSeed)
	}
	if c.ticost != 0 {
		s += fmt.Sprintf("/ticostAdj=%d", c.ticost)
	}
	if c.joinRev != 0 {
		s += fmt.Sprintf("/joinRev=%d", c.joinRev)
	}
	return s + "/" + string(c.dir)
}

type vfResult struct {
	cols     []string
	rows     []vfRow // in the order returned
	strategy string
	sig      string
	q        Query
}

func vfInitEngine() {
	sortForTest = true // deterministic (sorted) summarize list results
	MakeSuTran = func(qt QueryTran) *SuTran { return nil }
	db19.MakeSuTran = func(ut *db19.UpdateTran) *SuTran { return NewSuTran(nil, true) }
	vfDefineFuncs()
}

// vfIsRejection: the engine refused the request (cannot be satisfied), as opposed to failing.
func vfIsRejection(p any) bool {
	s := fmt.Sprint(p)
	return strings.HasPrefix(s, "invalid query")
}

func vfRowOf(hdr *Header, cols []string, row Row, th *Thread) vfRow {
	r := make(vfRow, len(cols))
	for _, c := range cols {
		r[c] = Unpack(row.GetRawVal(hdr, c, th, nil))
	}
	return r
}

// vfPrepare parses and sets up the query under cfg. Global test hooks are set for the duration.
func vfPrepare(d *vfDB, text string, cfg vfCfg) (q Query, cleanup func(), stage string, p any, stack string) {
	cleanup = func() {}
	defer func(rb *rand.Rand, ti, jr int) { randomBest, ticostAdj, joinRev = rb, ti, jr }(randomBest, ticostAdj, joinRev)
	randomBest = nil
	if cfg.rbSeed != 0 {
		randomBest = rand.New(rand.NewPCG(cfg.rbSeed, 99))
	}
	ticostAdj = cfg.ticost
	joinRev = cfg.joinRev
	stage = "parse"
	p, stack = vk.Catch(func() {
		var tran QueryTran
		if cfg.mode == UpdateMode {
			ut := d.db.NewUpdateTran()
			cleanup = func() { ut.Abort() }
			tran = ut
		} else {
			tran = d.db.NewReadTran()
		}
		q = ParseQuery(text, tran, nil)
		stage = "setup"
		switch cfg.setup {
		case "setup":
			q, _, _ = Setup(q, cfg.mode, tran)
		case "setup1":
			q, _, _ = Setup1(q, cfg.mode, tran)
		default:
			q = q.Transform()
			var req Require
			switch cfg.setup {
			case "order":
				req = OrderReq(cfg.reqCols, 1)
			case "group":
				req = GroupReq(cfg.reqCols, 1, 3)
			case "unique":
				req = UniqueReq(cfg.reqCols, 3)
			}
			fix, vr := Optimize(q, cfg.mode, req)
			if fix+vr >= impossible {
				panic("invalid query: requirement cannot be satisfied")
			}
			q = SetApproach(q, req, tran)
		}
		if cfg.cursor {
			q.SetTran(d.db.NewReadTran())
		}
		stage = "ready"
	})
	return
}

func vfReadAll(q Query, dir Dir, th *Thread) (rows []vfRow, p any, stack string) {
	hdr := q.Header()
	cols := hdr.Columns
	p, stack = vk.Catch(func() {
		for n := 0; ; n++ {
			row := q.Get(th, dir)
			if row == nil {
				break
			}
			if n > 200000 {
				panic("vf: query returns more than 200000 rows")
			}
			rows = append(rows, vfRowOf(hdr, cols, row, th))
		}
	})
	return
}

// vfSig is the strategy signature: operator/strategy tags of the executable tree without constants.
func vfSig(q Query) string {
	var sb strings.Builder
	var walk func(q Query)
	walk = func(q Query) {
		t := reflect.TypeOf(q)
		for t.Kind() == reflect.Pointer {
			t = t.Elem()
		}
		tag := t.Name()
		s := q.String()
		switch q.(type) {
		case *Table:
			if i := strings.Index(s, "^"); i >= 0 {
				tag += "^" + fmt.Sprint(strings.Count(s[i:], ",")+1)
			}
		case *Where:
			if strings.HasPrefix(s, "where*1") {
				tag += "*1"
			}
			if w := q.(*Where); w.idxSelBase != nil {
				tag += fmt.Sprintf("[r%d,s%d]", len(w.idxSelBase.prefixRanges), w.idxSelBase.skipLen)
			}
		case *Sort:
		default:
			if f := strings.Fields(s); len(f) > 0 {
				tag = f[0]
				if len(f) > 1 && strings.Contains(f[1], ":") {
					tag += f[1]
				}
			}
		}
		sb.WriteString(tag)
		switch qi := q.(type) {
		case q2i:
			sb.WriteString("(")
			walk(qi.Source())
			sb.WriteString(",")
			walk(qi.Source2())
			sb.WriteString(")")
		case q1i:
			sb.WriteString("(")
			walk(qi.Source())
			sb.WriteString(")")
		}
	}
	walk(q)
	return sb.String()
}

// vfExec prepares and reads everything in cfg.dir.
func vfExec(d *vfDB, text string, cfg vfCfg, th *Thread) (res *vfResult, stage string, p any, stack string) {
	q, cleanup, stage, p, stack := vfPrepare(d, text, cfg)
	defer cleanup()
	if p != nil {
		return nil, stage, p, stack
	}
	res = &vfResult{q: q, cols: slices.Clone(q.Header().Columns)}
	res.strategy = String(q)
	res.sig = vfSig(q)
	rows, p, stack := vfReadAll(q, cfg.dir, th)
	if p != nil {
		return res, "get", p, stack
	}
	res.rows = rows
	return res, "done", nil, ""
}

func vfRowText(row vfRow, cols []string) string {
	parts := make([]string, len(cols))
	for i, c := range cols {
		v, ok := row[c]
		if !ok {
			parts[i] = c + ": <missing>"
		} else {
			parts[i] = c + ": " + vfShow(v)
		}
	}
	return "{" + strings.Join(parts, ", ") + "}"
}

func vfRowsText(rows []vfRow, cols []string, max int) []string {
	var out []string
	for i, r := range rows {
		if i >= max {
			out = append(out, fmt.Sprintf("... %d rows in total", len(rows)))
			break
		}
		out = append(out, vfRowText(r, cols))
	}
	sort.Strings(out)
	return out
}

// vfDiff compares two row multisets over cols; returns rows only in a / only in b (as text).
func vfDiff(a, b []vfRow, cols []string) (onlyA, onlyB []string) {
	cnt := map[string]int{}
	txt := map[string]string{}
	for _, r := range a {
		k := vfRowKey(r, cols)
		cnt[k]++
		txt[k] = vfRowText(r, cols)
	}
	for _, r := range b {
		k := vfRowKey(r, cols)
		cnt[k]--
		if _, ok := txt[k]; !ok {
			txt[k] = vfRowText(r, cols)
		}
	}
	for k, c := range cnt {
		for ; c > 0; c-- {
			onlyA = append(onlyA, txt[k])
		}
		for ; c < 0; c++ {
			onlyB = append(onlyB, txt[k])
		}
	}
	sort.Strings(onlyA)
	sort.Strings(onlyB)
	return
}

// vfDiffOnlyRoundingOrder reports whether the two row multisets differ only in numbers that agree to 13 significant
// digits: total and average add 16-digit decimals, which is not associative once a quotient (an average) is among the
// operands, so the last digits depend on the order in which a strategy delivers the rows. Rows are paired greedily
// after the exact matches have been removed.
func vfDiffOnlyRoundingOrder(a, b []vfRow, cols []string) bool {
	if len(a) != len(b) {
		return false
	}
	cnt := map[string]int{}
	for _, r := range a {
		cnt[vfRowKey(r, cols)]++
	}
	var restB []vfRow
	for _, r := range b {
		if k := vfRowKey(r, cols); cnt[k] > 0 {
			cnt[k]--
		} else {
			restB = append(restB, r)
		}
	}
	var restA []vfRow
	for _, r := range a {
		if k := vfRowKey(r, cols); cnt[k] > 0 {
			cnt[k]--
			restA = append(restA, r)
		}
	}
	if len(restA) != len(restB) || len(restA) == 0 {
		return false
	}
	closeVal := func(x, y Value) bool {
		if x.Equal(y) {
			return true
		}
		dx, ok1 := x.(SuDnum)
		dy, ok2 := y.(SuDnum)
		if !ok1 || !ok2 || dx.IsInf() || dy.IsInf() {
			return false
		}
		diff := dnum.Sub(dx.Dnum, dy.Dnum).Abs()
		big := dx.Dnum.Abs()
		if dnum.Compare(dy.Dnum.Abs(), big) > 0 {
			big = dy.Dnum.Abs()
		}
		return dnum.Compare(diff, dnum.Mul(big, dnum.FromStr("1e-13"))) <= 0
	}
	get := func(r vfRow, c string) Value {
		if v, ok := r[c]; ok && v != nil {
			return v
		}
		return EmptyStr
	}
	used := make([]bool, len(restB))
outer:
	for _, ra := range restA {
	next:
		for j, rb := range restB {
			if used[j] {
				continue
			}
			for _, c := range cols {
				if !closeVal(get(ra, c), get(rb, c)) {
					continue next
				}
			}
			used[j] = true
			continue outer
		}
		return false
	}
	return true
}

func vfSameSet(a, b []string) bool {
	if len(a) != len(b) {
		return false
	}
	x, y := slices.Clone(a), slices.Clone(b)
	sort.Strings(x)
	sort.Strings(y)
	return slices.Equal(x, y)
}

func vfTruncList(l []string, n int) []string {
	if len(l) > n {
		return append(slices.Clone(l[:n]), fmt.Sprintf("... %d in total", len(l)))
	}
	return l
}

// vfModelResult evaluates the query in one ordering mode; tooBig reports an abandoned case.
func vfModelResult(d *vfDB, root *vfNode, raw bool) (rel *vfRel, open int, tooBig bool) {
	rel, open, _, tooBig = vfModelResult2(d, root, raw)
	return
}

func vfModelResult2(d *vfDB, root *vfNode, raw bool) (rel *vfRel, open, packDisagree int, tooBig bool) {
	m := vfNewModel(d, raw)
	defer func() {
		if e := recover(); e != nil {
			if _, ok := e.(vfTooBig); ok {
				tooBig = true
				return
			}
			panic(e)
		}
	}()
	rel = m.eval(root)
	return rel, m.ev.open, m.ev.packDisagree, false
}

// vfMatchesWhereBeforeRecordSummarize is the probe for the recorded finding "where conjunct applied before a summarize
// that returns the record": it reports whether the engine's rows are exactly what the query gives when a where directly
// over a by-less min/max summarize has its non-aggregate conjuncts applied to the source first (and whether that
// reading differs from the query as written at all is implied by the mismatch that led here).
func vfMatchesWhereBeforeRecordSummarize(d *vfDB, root *vfNode, rows []vfRow, cols []string) (matches bool) {
	m := vfNewModel(d, false)
	m.whereBeforeWholeRow = true
	defer func() {
		if e := recover(); e != nil {
			matches = false
		}
	}()
	rel := m.eval(root)
	if m.usedAlt == 0 || !vfSameSet(rel.cols, cols) {
		return false
	}
	a, b := vfDiff(rel.rows, rows, cols)
	return len(a)+len(b) == 0
}

// vfPanicSite names an engine failure: normalized message @ innermost repository function
// (outside the assert/kit helpers), so that different failures get different violation classes.
func vfPanicSite(p any, stack string) string {
	msg := fmt.Sprint(p)
	var nb strings.Builder
	for _, c := range msg {
		switch {
		case c >= '0' && c <= '9':
			nb.WriteByte('N')
		case c == '/':
			nb.WriteByte('|')
		default:
			nb.WriteRune(c)
		}
	}
	msg = vk.Trunc(strings.Join(strings.Fields(nb.String()), " "), 50)
	lines := strings.Split(stack, "\n")
	fn := "?"
	for i := 0; i+1 < len(lines); i++ {
		file := strings.TrimSpace(lines[i+1])
		if !strings.HasPrefix(file, "/repo/") || strings.HasPrefix(file, "/repo/util/assert/") ||
			strings.HasPrefix(file, "/repo/util/verifkit/") || strings.Contains(file, "zz_verif_") {
			continue
		}
		if strings.HasPrefix(lines[i], "\t") || strings.HasPrefix(lines[i], "panic(") {
			continue
		}
		f := lines[i]
		if j := strings.LastIndex(f, "("); j > 0 {
			f = f[:j]
		}
		if j := strings.LastIndex(f, "/"); j >= 0 {
			f = f[j+1:]
		}
		fn = f
		break
	}
	return msg + "@" + fn
}

// vfEngineFailLabel recognises the analysed engine failures from message and stack alone
// (shared by the checks that run queries as part of something else).
func vfEngineFailLabel(msg, stack string) string {
	switch {
	case strings.Contains(stack, "ProjectNone).hasRow") && (strings.Contains(stack, "query.hashCols") || strings.Contains(stack, "(*Thread).PushCall")):
		return "ProjectNone.hasRow-nil-thread"
	case strings.Contains(stack, "(*SemiJoin).Select") && (strings.Contains(msg, "Sels.Get can't find") || strings.Contains(stack, "query.selEnd")):
		return "semijoin-reverse-select-off-index"
	case strings.Contains(stack, "(*Intersect).Lookup") && (strings.Contains(msg, "Sels.Get can't find") || strings.Contains(msg, "selOrg not full")):
		return "intersect-with-singleton-lookup-without-selections"
	case strings.Contains(msg, "selOrg not full") && strings.Contains(stack, "(*Union).getLookup") && strings.Contains(stack, "(*Compatible).source2Has"):
		return "union-disjoint-lookup-source2Has"
	}
	return ""
}
