// C23 Query access operations honour their contracts.
// Generated queries (shared generator/model) are set up under a requirement and driven by call programs:
// Rewind/Get symmetry and eof stickiness, random Next/Prev walks, required order, Lookup with present /
// absent / extra selection values, Select and Select(nil), and the reported Keys() and Fixed().
package query

import (
	"fmt"
	"math/rand/v2"
	"slices"
	"strings"
	"testing"

	. "github.com/apmckinlay/gsuneido/core"
	vk "github.com/apmckinlay/gsuneido/util/verifkit"
)

type vfC23Witness struct {
	Seed, Shard, DB, Case int
	Query                 string
	Config                string
	Strategy              string
	Program               string
	Database              []string
	Expected              any
	Actual                any
	Note                  string
	Stack                 string `json:",omitempty"`
}

func TestVerifC23(t *testing.T) {
	rep := vk.NewReport("C23",
		"random database and query tree as in C22 (no sort); a case is one query under one call program: symmetry (Rewind, all Next, Rewind, all Prev, eof sticks), "+
			"walk (random Next/Prev/Rewind steps against a cursor model), order (order requirement), select (order/group requirement, Select of present and absent values, Select(nil)), "+
			"lookup (unique requirement on a reported key plus extra columns; present, absent and extra-mismatch values), keys-fixed (reported Keys()/Fixed() against the data); "+
			"non-trivial = the model result has at least 2 rows; distinct by (database, query, program, configuration)",
		"the full result is first compared with the model of the query as written (C22's oracle); programs only run on queries whose plain result is right, so that C23 reports contract violations of the access operations and not wrong results",
		"trusted base and open cases as in C22")
	defer rep.Finish()
	vfInitEngine()
	th := &Thread{}
	nq := vk.N(3000, 60000)
	const perDB = 20
	for qi := 0; qi < nq; {
		dbi := qi / perDB
		rep.Case("db %d (generating)", dbi)
		d := vfGenDB(vk.RandFor(23, dbi), 30)
		for j := 0; j < perDB && qi < nq; j, qi = j+1, qi+1 {
			vfC23Case(rep, d, dbi, qi, th)
		}
		d.close()
	}
}

type vfC23Ctx struct {
	rep      *vk.Report
	d        *vfDB
	dbi, qi  int
	q        *vfQuery
	text     string
	rel      *vfRel
	cols     []string
	th       *Thread
	r        *rand.Rand
	program  string
	cfg      vfCfg
	strategy string
}

func (c *vfC23Ctx) key() string {
	return fmt.Sprintf("%s  [%s %s]  db=%d/%d/%d", c.text, c.program, c.cfg, vk.Seed(), vk.Shard(), c.dbi)
}

func (c *vfC23Ctx) violate(class, note string, exp, act any, stack string) {
	w := &vfC23Witness{Seed: vk.Seed(), Shard: vk.Shard(), DB: c.dbi, Case: c.qi, Query: c.text, Config: c.cfg.String(),
		Strategy: c.strategy, Program: c.program, Database: c.d.describe(), Expected: exp, Actual: act, Note: note, Stack: vk.Trunc(stack, 2500)}
	c.rep.Violate(class, c.key(), w)
}

// prepare sets the query up; ok=false when it was rejected or failed (failures are reported).
func (c *vfC23Ctx) prepare() (q Query, cleanup func(), ok bool) {
	q, cleanup, stage, p, stack := vfPrepare(c.d, c.text, c.cfg)
	if p != nil {
		cleanup()
		if stage == "parse" {
			c.rep.Count("rejected_queries", 1)
			return nil, nil, false
		}
		if stage == "setup" && vfIsRejection(p) {
			c.rep.Count("rejected_configs", 1)
			return nil, nil, false
		}
		c.panicked("setup", p, stack, nil)
		return nil, nil, false
	}
	c.strategy = String(q)
	c.rep.Seen("strategies", vfSig(q))
	return q, cleanup, true
}

func (c *vfC23Ctx) panicked(stage string, p any, stack string, q Query) {
	var res *vfResult
	if q != nil {
		res = &vfResult{strategy: c.strategy, cols: c.cols}
	}
	cl := "C23/engine-panic/" + stage + "/" + vfPanicSite(p, stack)
	if lbl := vfC22Diagnose("panic-"+stage, fmt.Sprint(p), stack, res, c.q, c.cols, false); lbl != "" {
		cl = "C23/engine-panic/" + stage + "/" + lbl
	}
	c.violate(cl, fmt.Sprint(p), nil, nil, stack)
}

// get reads one row; ok=false after an engine failure (reported).
func (c *vfC23Ctx) get(q Query, dir Dir) (row vfRow, ok bool) {
	var r Row
	p, stack := vk.Catch(func() { r = q.Get(c.th, dir) })
	if p != nil {
		c.panicked("get", p, stack, q)
		return nil, false
	}
	if r == nil {
		return nil, true
	}
	return vfRowOf(q.Header(), c.cols, r, c.th), true
}

func (c *vfC23Ctx) all(q Query, dir Dir) (rows []vfRow, ok bool) {
	for n := 0; n < 100000; n++ {
		row, ok := c.get(q, dir)
		if !ok {
			return nil, false
		}
		if row == nil {
			return rows, true
		}
		rows = append(rows, row)
	}
	c.violate("C23/get-does-not-end", "more than 100000 rows", nil, nil, "")
	return nil, false
}

func (c *vfC23Ctx) same(a, b vfRow) bool { return vfRowKey(a, c.cols) == vfRowKey(b, c.cols) }

func (c *vfC23Ctx) rowsText(rows []vfRow) []string {
	out := make([]string, 0, len(rows))
	for i, r := range rows {
		if i >= 40 {
			out = append(out, fmt.Sprintf("... %d rows", len(rows)))
			break
		}
		out = append(out, vfRowText(r, c.cols))
	}
	return out
}

func vfC23Case(rep *vk.Report, d *vfDB, dbi, qi int, th *Thread) {
	r := vk.RandFor(2300, qi)
	g := vfNewGen(r, d)
	var root *vfNode
	func() {
		defer func() {
			if e := recover(); e != nil {
				if _, ok := e.(vfTooBig); !ok {
					panic(e)
				}
			}
		}()
		if qi%5 == 4 {
			// every fifth case: an index-aware shape (see zz_verif_qcommon_idxpattern_test.go); its sort, if
			// any, is left to the order requirements this check imposes itself
			if iq := vfGenIndexQuery(d, r); iq != nil {
				root = iq.root
				rep.Count("index_aware_cases", 1)
				return
			}
		}
		root = g.gen(1 + r.IntN(4))
	}()
	if root == nil {
		rep.Count("gen_too_big", 1)
		return
	}
	q := &vfQuery{root: root}
	text := q.text()
	rep.Case("db %d case %d: %s", dbi, qi, text)
	relV, openV, big1 := vfModelResult(d, root, false)
	_, openR, big2 := vfModelResult(d, root, true)
	if big1 || big2 || len(relV.rows) > 600 {
		rep.Count("model_too_big", 1)
		return
	}
	if openV+openR > 0 {
		rep.Count("open_skipped", 1)
		return
	}
	c := &vfC23Ctx{rep: rep, d: d, dbi: dbi, qi: qi, q: q, text: text, rel: relV, cols: relV.cols, th: th, r: r}
	hist := map[string]int{}
	root.count(hist)
	for op, n := range hist {
		rep.Count("op_"+op, n)
	}
	scalar := vfColNames(vfScalarCols(root.out))
	pick := func(from []string, max int) []string {
		k := 1 + r.IntN(min(max, len(from)))
		perm := r.Perm(len(from))
		l := make([]string, k)
		for i := range l {
			l[i] = from[perm[i]]
		}
		return l
	}
	mode := func() (Mode, bool) {
		switch r.IntN(6) {
		case 0:
			return UpdateMode, false
		case 1:
			return CursorMode, true
		}
		return ReadMode, false
	}
	rb := func() uint64 {
		if r.IntN(3) == 0 {
			return 1 + r.Uint64N(1<<40)
		}
		return 0
	}
	programs := []string{"symmetry", "walk", "order", "select", "lookup", "keys-fixed"}
	for _, prog := range programs {
		c.program = prog
		m, cur := mode()
		c.cfg = vfCfg{name: prog, mode: m, cursor: cur, setup: "setup", rbSeed: rb(), dir: Next}
		switch prog {
		case "symmetry", "walk":
			switch r.IntN(4) {
			case 0:
				if len(scalar) > 0 {
					c.cfg.setup, c.cfg.reqCols = "order", pick(scalar, 2)
				}
			case 1:
				if len(c.cols) > 0 {
					c.cfg.setup, c.cfg.reqCols = "group", pick(c.cols, 2)
				}
			case 2:
				c.cfg.setup = "setup1"
			}
		case "order":
			if len(scalar) == 0 {
				continue
			}
			c.cfg.setup, c.cfg.reqCols = "order", pick(scalar, 3)
		case "select":
			if len(c.cols) == 0 {
				continue
			}
			c.cfg.setup, c.cfg.reqCols = vfPick(r, []string{"order", "group"}), pick(c.cols, 2)
			if c.cfg.setup == "order" {
				if len(scalar) == 0 {
					continue
				}
				c.cfg.reqCols = pick(scalar, 2)
			}
		case "lookup":
			c.cfg.setup = "unique" // columns chosen from the reported keys in the program
		}
		rep.Eval(vk.Hash64(d.dbHash(), text, prog, c.cfg.String()), len(relV.rows) >= 2)
		if !c.run(prog) {
			// the plain result is wrong or the engine failed: the other programs would only repeat it
			if prog == "symmetry" {
				return
			}
		}
	}
}

// run executes one program; false = could not be carried out.
func (c *vfC23Ctx) run(prog string) bool {
	if prog == "lookup" {
		return c.lookup()
	}
	if prog == "keys-fixed" {
		return c.keysFixed()
	}
	q, cleanup, ok := c.prepare()
	if !ok {
		return false
	}
	defer cleanup()
	c.rep.Count("prog_"+prog, 1)
	fwd, ok := c.all(q, Next)
	if !ok {
		return false
	}
	// C22's oracle first
	if onlyM, onlyE := vfDiff(c.rel.rows, fwd, c.cols); len(onlyM)+len(onlyE) > 0 || !vfSameSet(q.Header().Columns, c.cols) {
		c.rep.Count("skipped_result_differs_from_model", 1)
		return false
	}
	c.rep.Count("rows_read", len(fwd))
	n := len(fwd)
	switch prog {
	case "symmetry":
		// eof sticks in both directions
		for _, dir := range []Dir{Next, Prev, Next} {
			row, ok := c.get(q, dir)
			if !ok {
				return false
			}
			if row != nil {
				c.violate("C23/eof-does-not-stick", fmt.Sprintf("Get(%c) after the end of a forward read returned a row", dir), nil, vfRowText(row, c.cols), "")
				return false
			}
		}
		q.Rewind()
		bwd, ok := c.all(q, Prev)
		if !ok {
			return false
		}
		if len(bwd) != n {
			c.violate("C23/prev-count-differs", "reading backwards returns a different number of rows", c.rowsText(fwd), c.rowsText(bwd), "")
			return false
		}
		for i := range bwd {
			if !c.same(bwd[i], fwd[n-1-i]) {
				c.violate("C23/prev-not-reverse-of-next", fmt.Sprintf("row %d read backwards is not row %d read forwards", i, n-1-i), c.rowsText(fwd), c.rowsText(bwd), "")
				return false
			}
		}
		for _, dir := range []Dir{Prev, Next} {
			if row, ok := c.get(q, dir); ok && row != nil {
				c.violate("C23/eof-does-not-stick", fmt.Sprintf("Get(%c) after the end of a backward read returned a row", dir), nil, vfRowText(row, c.cols), "")
				return false
			}
		}
		// a second forward read after Rewind gives the same sequence
		q.Rewind()
		again, ok := c.all(q, Next)
		if !ok {
			return false
		}
		if len(again) != n {
			c.violate("C23/rewind-changes-result", "second forward read differs", c.rowsText(fwd), c.rowsText(again), "")
			return false
		}
		for i := range again {
			if !c.same(again[i], fwd[i]) {
				c.violate("C23/rewind-changes-order", "second forward read has another order", c.rowsText(fwd), c.rowsText(again), "")
				return false
			}
		}
		c.rep.Count("symmetry_checked", 1)
	case "walk":
		return c.walk(q, fwd)
	case "order":
		if i, pk := vfOrdered2(fwd, c.cfg.reqCols, false); i >= 0 {
			vfPackOrderPair = pk
			cl := "C23/required-order"
			if lbl := vfC22Diagnose("order", "", "", &vfResult{strategy: c.strategy}, c.q, c.cols, false); lbl != "" {
				cl += "/" + lbl
			}
			c.violate(cl, fmt.Sprintf("order violated at row %d", i), c.cfg.reqCols, c.rowsText(fwd), "")
			return false
		}
		c.rep.Count("order_checked", 1)
	case "select":
		return c.selects(q, fwd)
	}
	return true
}

// walk: a cursor model over the forward sequence. pos is the index of the last returned row;
// -1 = rewound. After a nil the cursor sticks until Rewind.
func (c *vfC23Ctx) walk(q Query, fwd []vfRow) bool {
	n := len(fwd)
	q.Rewind()
	rewound, eof := true, false
	pos := 0
	hist := ""
	steps := min(120, 6+4*n)
	for s := 0; s < steps; s++ {
		x := c.r.IntN(12)
		if x == 0 || (eof && c.r.IntN(2) == 0) {
			q.Rewind()
			rewound, eof = true, false
			hist += "R"
			continue
		}
		dir := Next
		if x%2 == 0 {
			dir = Prev
		}
		hist += string(dir)
		var want vfRow
		switch {
		case eof:
		case rewound && dir == Next:
			pos = 0
			if n > 0 {
				want = fwd[0]
			}
		case rewound && dir == Prev:
			pos = n - 1
			if n > 0 {
				want = fwd[n-1]
			}
		case dir == Next:
			pos++
			if pos < n {
				want = fwd[pos]
			}
		default:
			pos--
			if pos >= 0 {
				want = fwd[pos]
			}
		}
		rewound = false
		if want == nil {
			eof = true
		}
		got, ok := c.get(q, dir)
		if !ok {
			return false
		}
		if (got == nil) != (want == nil) || (got != nil && !c.same(got, want)) {
			exp, act := "end", "end"
			if want != nil {
				exp = vfRowText(want, c.cols)
			}
			if got != nil {
				act = vfRowText(got, c.cols)
			}
			c.violate("C23/walk-differs", "steps "+hist+" (R rewind, + next, - prev) over the forward sequence", map[string]any{"row": exp, "forward_sequence": c.rowsText(fwd)}, act, "")
			return false
		}
	}
	c.rep.Count("walk_steps", steps)
	return true
}

func vfSelsOf(row vfRow, cols []string) Sels {
	sels := make(Sels, len(cols))
	for i, col := range cols {
		sels[i] = Sel{col: col, val: vfPack(row[col])}
	}
	return sels
}

func (c *vfC23Ctx) selects(q Query, fwd []vfRow) bool {
	cols := c.cfg.reqCols
	for round := 0; round < 6; round++ {
		// selection values: from a result row, or altered to something absent
		var base vfRow
		if len(fwd) > 0 {
			base = vfCloneRow(vfPick(c.r, fwd))
		} else {
			base = vfRow{}
			for _, col := range cols {
				base[col] = vfPick(c.r, vfMixedDom).v
			}
		}
		absent := round%3 == 2 || len(fwd) == 0
		if absent {
			col := vfPick(c.r, cols)
			base[col] = vfPick(c.r, []Value{SuStr("nonexistent"), IntVal(987654), EmptyStr, vfPick(c.r, vfMixedDom).v})
		}
		shuffled := slices.Clone(cols)
		c.r.Shuffle(len(shuffled), func(i, j int) { shuffled[i], shuffled[j] = shuffled[j], shuffled[i] })
		sels := vfSelsOf(base, shuffled)
		var want []vfRow
		for _, row := range fwd {
			match := true
			for _, col := range cols {
				if !vfSame(row[col], base[col]) {
					match = false
				}
			}
			if match {
				want = append(want, row)
			}
		}
		p, stack := vk.Catch(func() { q.Select(sels) })
		if p != nil {
			c.panicked("select", p, stack, q)
			return false
		}
		got, ok := c.all(q, vfPick(c.r, []Dir{Next, Prev}))
		if !ok {
			return false
		}
		if onlyM, onlyE := vfDiff(want, got, c.cols); len(onlyM)+len(onlyE) > 0 {
			cl := "C23/select-wrong-rows"
			if lbl := vfC22Diagnose("rows", "c23"+map[bool]string{true: "-extra-only"}[len(onlyM) == 0], "", &vfResult{strategy: c.strategy}, c.q, c.cols, false); lbl != "" {
				cl += "/" + lbl
			}
			c.violate(cl, "Select("+vfRowText(base, shuffled)+") then reading everything", map[string]any{"missing": vfTruncList(onlyM, 10), "rows": len(want)},
				map[string]any{"extra": vfTruncList(onlyE, 10), "rows": len(got)}, "")
			return false
		}
		c.rep.Count("selects", 1)
		if len(want) > 0 {
			c.rep.Count("selects_with_rows", 1)
		}
	}
	// Select(nil) restores the whole result
	p, stack := vk.Catch(func() { q.Select(nil) })
	if p != nil {
		c.panicked("select", p, stack, q)
		return false
	}
	got, ok := c.all(q, Next)
	if !ok {
		return false
	}
	if onlyM, onlyE := vfDiff(fwd, got, c.cols); len(onlyM)+len(onlyE) > 0 {
		c.violate("C23/select-nil-does-not-restore", "after Select(nil) the full result must be read again", map[string]any{"missing": vfTruncList(onlyM, 10), "rows": len(fwd)},
			map[string]any{"extra": vfTruncList(onlyE, 10), "rows": len(got)}, "")
		return false
	}
	c.rep.Count("select_restored", 1)
	return true
}

// reportedKeys returns Keys() of the transformed query (what the optimizer works with).
func (c *vfC23Ctx) reportedKeys() (keys [][]string, fixed Fixed, ok bool) {
	p, stack := vk.Catch(func() {
		rt := c.d.db.NewReadTran()
		q := ParseQuery(c.text, rt, nil)
		keys = append(keys, q.Keys()...)
		q = q.Transform()
		keys = append(keys, q.Keys()...)
		fixed = q.Fixed()
	})
	if p != nil {
		c.panicked("setup", p, stack, nil)
		return nil, nil, false
	}
	return keys, fixed, true
}

func (c *vfC23Ctx) keysFixed() bool {
	keys, fixed, ok := c.reportedKeys()
	if !ok {
		return false
	}
	c.rep.Count("prog_keys-fixed", 1)
	for _, key := range keys {
		if !vfSubset(key, c.cols) {
			continue // judged by the column check of C22
		}
		seen := map[string]vfRow{}
		for _, row := range c.rel.rows {
			k := vfTupleKey(row, key)
			if other, dup := seen[k]; dup {
				c.cfg = vfCfg{name: "keys"}
				cl := "C23/reported-key-not-unique"
				if lbl := vfC22Diagnose("keys", "", "", nil, c.q, c.cols, false); lbl != "" {
					cl += "/" + lbl
				}
				c.violate(cl, "Keys() reports "+strings.Join(key, ",")+" but two result rows agree on it", key,
					[]string{vfRowText(other, c.cols), vfRowText(row, c.cols)}, "")
				return false
			}
			seen[k] = row
		}
		c.rep.Count("keys_checked", 1)
	}
	// the same for the rows the engine actually delivers (the model's rows are a set by construction): a key the
	// engine reports while it delivers two rows that agree on it is wrong whichever of the two is at fault
	if q, cleanup, ok := c.prepare(); ok {
		engineRows, ok := c.all(q, Next)
		hdrCols := slices.Clone(q.Header().Columns)
		cleanup()
		if ok && vfSameSet(hdrCols, c.cols) {
			for _, key := range keys {
				if !vfSubset(key, c.cols) {
					continue
				}
				seen := map[string]vfRow{}
				for _, row := range engineRows {
					k := vfTupleKey(row, key)
					if other, dup := seen[k]; dup {
						c.cfg = vfCfg{name: "keys"}
						c.violate("C23/reported-key-not-unique/in-delivered-rows", "Keys() reports "+strings.Join(key, ",")+" but two delivered rows agree on it", key,
							[]string{vfRowText(other, c.cols), vfRowText(row, c.cols)}, "")
						return false
					}
					seen[k] = row
				}
				c.rep.Count("keys_checked_on_delivered_rows", 1)
			}
		}
	}
	for _, f := range fixed {
		if !slices.Contains(c.cols, f.col) {
			continue
		}
		for _, row := range c.rel.rows {
			if !slices.Contains(f.values, vfPack(row[f.col])) {
				vals := make([]string, len(f.values))
				for i, v := range f.values {
					vals[i] = vfShow(Unpack(v))
				}
				c.cfg = vfCfg{name: "fixed"}
				c.violate("C23/reported-fixed-does-not-hold", "Fixed() reports "+f.col+" in ("+strings.Join(vals, ", ")+") but a result row has another value", vals, vfRowText(row, c.cols), "")
				return false
			}
		}
		c.rep.Count("fixed_checked", 1)
	}
	return true
}

func (c *vfC23Ctx) lookup() bool {
	keys, _, ok := c.reportedKeys()
	if !ok || len(keys) == 0 {
		return false
	}
	// only keys that really are keys of the result (reported-key-not-unique is the other program's finding)
	var good [][]string
	for _, key := range keys {
		if !vfSubset(key, c.cols) || len(key) == 0 {
			continue
		}
		seen := map[string]bool{}
		uniq := true
		for _, row := range c.rel.rows {
			k := vfTupleKey(row, key)
			if seen[k] {
				uniq = false
			}
			seen[k] = true
		}
		if uniq {
			good = append(good, key)
		}
	}
	if len(good) == 0 {
		c.rep.Count("lookup_no_key", 1)
		return true
	}
	key := vfPick(c.r, good)
	cols := slices.Clone(key)
	// extra columns beyond the key (they take part in the requirement; the caller filters on them)
	for _, col := range c.cols {
		if !slices.Contains(cols, col) && c.r.IntN(4) == 0 {
			cols = append(cols, col)
		}
	}
	c.r.Shuffle(len(cols), func(i, j int) { cols[i], cols[j] = cols[j], cols[i] })
	c.cfg.reqCols = cols
	q, cleanup, ok := c.prepare()
	if !ok {
		return false
	}
	defer cleanup()
	c.rep.Count("prog_lookup", 1)
	rows := c.rel.rows
	// the plain result under this requirement must be right before lookups are judged
	first, ok := c.all(q, Next)
	if !ok {
		return false
	}
	if onlyM, onlyE := vfDiff(rows, first, c.cols); len(onlyM)+len(onlyE) > 0 || !vfSameSet(q.Header().Columns, c.cols) {
		c.rep.Count("skipped_result_differs_from_model", 1)
		return false
	}
	q.Rewind()
	for round := 0; round < 8; round++ {
		var base vfRow
		if len(rows) > 0 {
			base = vfCloneRow(vfPick(c.r, rows))
		} else {
			base = vfRow{}
			for _, col := range cols {
				base[col] = vfPick(c.r, vfMixedDom).v
			}
		}
		kind := "present"
		if round%4 == 2 || len(rows) == 0 {
			kind = "absent-key"
			col := vfPick(c.r, key)
			base[col] = vfPick(c.r, []Value{SuStr("nonexistent"), IntVal(987654), EmptyStr, vfPick(c.r, vfMixedDom).v})
		} else if round%4 == 3 && len(cols) > len(key) {
			kind = "extra-mismatch"
			for _, col := range cols {
				if !slices.Contains(key, col) {
					base[col] = SuStr("nonexistent")
				}
			}
		}
		var want vfRow
		for _, row := range rows {
			match := true
			for _, col := range cols {
				if !vfSame(row[col], base[col]) {
					match = false
				}
			}
			if match {
				want = row
			}
		}
		sels := vfSelsOf(base, cols)
		var got vfRow
		p, stack := vk.Catch(func() {
			row := q.Lookup(c.th, sels)
			// the originator of the selections compares the columns the lookup may ignore
			row = lookupFilter(q.Header(), row, sels, c.th, nil)
			if row != nil {
				got = vfRowOf(q.Header(), c.cols, row, c.th)
			}
		})
		if p != nil {
			c.panicked("lookup", p, stack, q)
			return false
		}
		if (got == nil) != (want == nil) || (got != nil && !c.same(got, want)) {
			exp, act := "nothing", "nothing"
			if want != nil {
				exp = vfRowText(want, c.cols)
			}
			if got != nil {
				act = vfRowText(got, c.cols)
			}
			cl := "C23/lookup-wrong/" + kind
			if lbl := vfC22Diagnose("rows", "c23"+map[bool]string{true: "-extra-only"}[want == nil], "", &vfResult{strategy: c.strategy}, c.q, c.cols, false); lbl != "" {
				cl = "C23/lookup-wrong/" + lbl
			}
			c.violate(cl, "Lookup("+vfRowText(base, cols)+"), reported key "+strings.Join(key, ","), exp, act, "")
			return false
		}
		c.rep.Count("lookups", 1)
		c.rep.Count("lookups_"+kind, 1)
	}
	// after lookups a plain read still gives the whole result (Lookup leaves no selection behind)
	q.Rewind()
	got, ok := c.all(q, Next)
	if !ok {
		return false
	}
	if onlyM, onlyE := vfDiff(rows, got, c.cols); len(onlyM)+len(onlyE) > 0 {
		c.violate("C23/lookup-leaves-selection", "reading everything after lookups", map[string]any{"missing": vfTruncList(onlyM, 10), "rows": len(rows)},
			map[string]any{"extra": vfTruncList(onlyE, 10), "rows": len(got)}, "")
		return false
	}
	return true
}
