// C24 Query update statements change exactly the selected rows.
// Generated insert / insert-query / update / delete statements are run through DoAction in an update
// transaction on generated heap databases; the returned count and the table contents after commit are
// compared with the harness's own model (zz_verif_qcommon_*).
package query

import (
	"fmt"
	"math/rand/v2"
	"os"
	"slices"
	"strconv"
	"strings"
	"testing"

	. "github.com/apmckinlay/gsuneido/core"
	vk "github.com/apmckinlay/gsuneido/util/verifkit"
)

type vfStmt struct {
	kind   string // insert insertq update delete
	text   string
	target *vfTable
	// expected outcome
	mustFail    bool
	mayFail     bool
	count       int
	newRows     []vfRow // table content after the statement if it succeeds
	open        bool    // selection depends on an open comparison
	note        string
	projCols    []string // update/delete through a project: the projected columns
	movesKey    bool     // update that changes key values of selected rows
	readsTarget bool     // insert query whose source reads the target table
	q           *vfNode  // source (insertq) or target query (update, delete)
	refuse      string   // the statement should be refused with an error containing this text (query is not updateable)
	// the optimizer may simplify such a query to an updateable one (a restriction that selects nothing, a union
	// with an empty operand): then the statement may succeed, but only with this table content afterwards
	// (nil: no meaningful result exists, it must be refused)
	ifAccepted []vfRow
	acceptable bool
}

func vfKeyDups(t *vfTable, rows []vfRow) bool {
	for _, k := range t.keys {
		seen := map[string]bool{}
		for _, r := range rows {
			tk := vfTupleKey(r, k)
			if seen[tk] {
				return true
			}
			seen[tk] = true
		}
	}
	return false
}

type vfC24Gen struct {
	r *rand.Rand
	d *vfDB
}

func (g *vfC24Gen) insertRecord(t *vfTable) *vfStmt {
	r := g.r
	row := vfRow{}
	var parts []string
	wide := map[string]bool{}
	for _, k := range t.keys {
		if len(k) == 1 {
			wide[k[0]] = true
		}
	}
	reuse := len(t.rows) > 0 && r.IntN(4) == 0 // take the key of an existing row: must be refused
	var from vfRow
	if reuse {
		from = vfPick(r, t.rows)
	}
	keycols := []string{}
	if len(t.keys) > 0 {
		keycols = vfPick(r, t.keys)
	}
	for _, c := range t.cols {
		var v Value
		switch {
		case reuse && slices.Contains(keycols, c.name):
			v = from[c.name]
		case r.IntN(8) == 0 && !wide[c.name]:
			row[c.name] = EmptyStr // member omitted: stored as ""
			continue
		default:
			v = vfGenValue(r, t, c, wide[c.name])
		}
		row[c.name] = v
		parts = append(parts, c.name+": "+vfShow(v))
	}
	r.Shuffle(len(parts), func(i, j int) { parts[i], parts[j] = parts[j], parts[i] })
	st := &vfStmt{kind: "insert", target: t, count: 1}
	st.text = "insert { " + strings.Join(parts, ", ") + " } into " + t.name
	st.newRows = append(slices.Clone(t.rows), row)
	st.mustFail = vfKeyDups(t, st.newRows)
	return st
}

func (g *vfC24Gen) insertQuery(t *vfTable) *vfStmt {
	r := g.r
	qg := vfNewGen(r, g.d)
	qg.noView = true
	var src *vfNode
	// prefer a source that has the key columns of the target
	var cands []*vfTable
	for _, s := range g.d.tables {
		if len(t.keys) > 0 && vfSubset(t.keys[0], vfColNames(s.cols)) {
			cands = append(cands, s)
		}
	}
	if len(cands) > 0 && r.IntN(10) < 7 {
		src = qg.tableNode(vfPick(r, cands))
		if r.IntN(4) > 0 {
			src = qg.where(src)
		}
		if r.IntN(4) == 0 {
			if p := qg.project(src); p != nil {
				src = p
			}
		}
	} else {
		src = qg.gen(1 + r.IntN(2))
	}
	st := &vfStmt{kind: "insertq", target: t}
	st.q = src
	st.readsTarget = vfHasNode(src, func(n *vfNode) bool { return n.op == "table" && n.name == t.name })
	st.text = "insert " + src.operandText() + " into " + t.name
	rel, openV, big := vfModelResult(g.d, src, false)
	_, openR, _ := vfModelResult(g.d, src, true)
	if big {
		return nil
	}
	st.open = openV+openR > 0
	st.newRows = slices.Clone(t.rows)
	for _, row := range rel.rows {
		nr := vfRow{}
		for _, c := range t.cols {
			v, ok := row[c.name]
			if !ok {
				v = EmptyStr
			}
			nr[c.name] = v
		}
		st.newRows = append(st.newRows, nr)
	}
	st.count = len(rel.rows)
	st.mustFail = vfKeyDups(t, st.newRows)
	if len(st.newRows) > 300 {
		return nil
	}
	return st
}

// target builds the query of an update/delete: the table, restricted, possibly through extend or a
// project that keeps a key (all single source, hence updateable).
func (g *vfC24Gen) targetQuery(t *vfTable) (*vfNode, *vfGen) {
	r := g.r
	qg := vfNewGen(r, g.d)
	n := qg.tableNode(t)
	if r.IntN(10) == 0 {
		return n, qg
	}
	if r.IntN(5) == 0 {
		n = qg.extend(n)
	}
	n = qg.where(n)
	if r.IntN(4) == 0 {
		n = qg.where(n)
	}
	if r.IntN(8) == 0 && len(t.keys[0]) > 0 && len(t.keys[0]) < len(n.out) {
		// project keeping the first key plus some columns
		keep := slices.Clone(t.keys[0])
		for _, c := range n.out {
			if !slices.Contains(keep, c.name) && r.IntN(2) == 0 {
				keep = append(keep, c.name)
			}
		}
		if len(keep) < len(n.out) {
			out := make([]vfCol, len(keep))
			for i, c := range keep {
				out[i], _ = vfFindCol(n.out, c)
			}
			n = qg.finish(&vfNode{op: "project", src: n, cols: keep, out: out})
		}
	}
	return n, qg
}

// selected maps the rows of the target query back to rows of the table by the table's first key.
func vfSelected(t *vfTable, rel *vfRel) map[string]vfRow {
	sel := map[string]vfRow{}
	for _, row := range rel.rows {
		sel[vfTupleKey(row, t.keys[0])] = row
	}
	return sel
}

// notUpdateable: an update or delete whose query is not a single table seen through where/extend/rename or a
// project that keeps a key: a project that drops every key, a summarize, a join/union with another table.
// It must be refused ("not updateable") and change nothing.
func (g *vfC24Gen) notUpdateable(t *vfTable) *vfStmt {
	r := g.r
	qg := vfNewGen(r, g.d)
	n := qg.tableNode(t)
	if r.IntN(2) == 0 {
		n = qg.where(n)
	}
	var bad *vfNode
	switch r.IntN(4) {
	case 0, 1: // project without any key
		for _, k := range t.keys {
			if len(k) == 0 {
				return nil // key(): every projection keeps it
			}
		}
		var keep []string
		for _, c := range n.out {
			if r.IntN(2) == 0 {
				keep = append(keep, c.name)
			}
		}
		for _, k := range t.keys { // drop one column of every key that is still complete
			all := true
			for _, c := range k {
				all = all && slices.Contains(keep, c)
			}
			if all {
				drop := k[r.IntN(len(k))]
				keep = slices.DeleteFunc(keep, func(c string) bool { return c == drop })
			}
		}
		if len(keep) == 0 {
			return nil
		}
		out := make([]vfCol, len(keep))
		for i, c := range keep {
			out[i], _ = vfFindCol(n.out, c)
		}
		bad = qg.finish(&vfNode{op: "project", src: n, cols: keep, out: out})
	case 2:
		bad = qg.summarize(n)
	default:
		// union of two restrictions of the same table
		right := qg.where(qg.reeval(n.clone()))
		bad = qg.tryFinish(&vfNode{op: "union", src: n, src2: right, out: n.out})
	}
	if bad == nil {
		return nil
	}
	st := &vfStmt{target: t, q: bad, refuse: "not updateable", newRows: t.rows}
	relBad, openV, _ := vfModelResult(g.d, bad, false)
	_, openR, _ := vfModelResult(g.d, bad, true)
	relSrc, openS, _ := vfModelResult(g.d, n, false)
	st.open = openV+openR+openS > 0
	settable := vfScalarCols(bad.out)
	// (update only through a summarize: an update through a project that the optimizer accepts after all, e.g.
	// because the key is fixed by the where, runs into the recorded update-through-project defect)
	isDelete := r.IntN(2) == 0 || len(settable) == 0 || bad.op != "summarize"
	if isDelete {
		st.kind, st.text = "delete", "delete "+bad.text()
	} else {
		c := vfPick(r, settable)
		st.kind, st.text = "update", "update "+bad.text()+" set "+c.name+" = "+c.name
	}
	// what an accepted statement may do at most: nothing when the query selects nothing; for a project or a
	// union of restrictions of the table itself, act on every table row behind the selected rows
	switch {
	case len(relBad.rows) == 0 || !isDelete:
		st.acceptable, st.ifAccepted = true, t.rows
	case bad.op == "project" || bad.op == "union":
		sel := vfSelected(t, relSrc)
		if bad.op == "union" {
			sel = vfSelected(t, relBad)
		}
		st.acceptable = true
		for _, row := range t.rows {
			if _, ok := sel[vfTupleKey(row, t.keys[0])]; !ok {
				st.ifAccepted = append(st.ifAccepted, row)
			}
		}
	}
	return st
}

func (g *vfC24Gen) delete(t *vfTable) *vfStmt {
	n, _ := g.targetQuery(t)
	st := &vfStmt{kind: "delete", target: t, text: "delete " + n.text(), q: n}
	rel, openV, _ := vfModelResult(g.d, n, false)
	_, openR, _ := vfModelResult(g.d, n, true)
	st.open = openV+openR > 0
	sel := vfSelected(t, rel)
	for _, row := range t.rows {
		if _, ok := sel[vfTupleKey(row, t.keys[0])]; !ok {
			st.newRows = append(st.newRows, row)
		}
	}
	st.count = len(rel.rows)
	return st
}

func (g *vfC24Gen) update(t *vfTable) *vfStmt {
	r := g.r
	n, _ := g.targetQuery(t)
	avail := vfScalarCols(n.out)
	// columns of the table that the query still has
	var settable []vfCol
	for _, c := range t.cols {
		if _, ok := vfFindCol(n.out, c.name); ok {
			settable = append(settable, c)
		}
	}
	if len(settable) == 0 {
		return nil
	}
	nset := 1 + r.IntN(min(2, len(settable)))
	perm := r.Perm(len(settable))
	var setCols []vfCol
	for i := 0; i < nset; i++ {
		setCols = append(setCols, settable[perm[i]])
	}
	var exprs []*vfExpr
	var parts []string
	for _, c := range setCols {
		// an expression may use its own column and columns that are not being set
		var cols []vfCol
		for _, a := range avail {
			if a.name == c.name || !slices.ContainsFunc(setCols, func(s vfCol) bool { return s.name == a.name }) {
				cols = append(cols, a)
			}
		}
		eg := &vfExprGen{r: r, cols: cols}
		var e *vfExpr
		switch r.IntN(4) {
		case 0:
			e = vfConst(vfPick(r, vfDomain(c.kind)))
		case 1:
			if c.kind == vfNum {
				e = vfOp("add", vfColRef(c.name), vfConst(vfPick(r, []vfLit{vfInt(1), vfInt(10), vfInt(-1), vfInt(100)})))
			}
		}
		if e == nil {
			e = eg.value(c.kind, 2)
		}
		exprs = append(exprs, e)
		parts = append(parts, c.name+" = "+e.text())
	}
	st := &vfStmt{kind: "update", target: t, text: "update " + n.text() + " set " + strings.Join(parts, ", ")}
	st.q = n
	if n.op == "project" {
		st.projCols = n.cols
	}
	rel, openV, _ := vfModelResult(g.d, n, false)
	_, openR, _ := vfModelResult(g.d, n, true)
	ev := vfEval{}
	sel := vfSelected(t, rel)
	st.count = len(rel.rows)
	changedKey := map[int]bool{}
	for i, row := range t.rows {
		qrow, ok := sel[vfTupleKey(row, t.keys[0])]
		if !ok {
			st.newRows = append(st.newRows, row)
			continue
		}
		nr := vfCloneRow(row)
		for j, c := range setCols {
			nr[c.name] = vfNorm(ev.eval(exprs[j], qrow)) // all expressions see the old values
		}
		st.newRows = append(st.newRows, nr)
		for _, k := range t.keys {
			if vfTupleKey(nr, k) != vfTupleKey(row, k) {
				changedKey[i] = true
			}
		}
	}
	st.open = openV+openR+ev.open > 0
	st.mustFail = vfKeyDups(t, st.newRows)
	// transient collision: a moved key equals the old key of another row
	for i := range t.rows {
		if !changedKey[i] {
			continue
		}
		for _, k := range t.keys {
			nk := vfTupleKey(st.newRows[i], k)
			if nk == vfTupleKey(t.rows[i], k) {
				continue
			}
			for j := range t.rows {
				if j != i && vfTupleKey(t.rows[j], k) == nk {
					st.mayFail = true
				}
			}
		}
	}
	if len(changedKey) > 0 {
		st.note = "changes key values"
		st.movesKey = true
	}
	return st
}

var vfC24Debug bool

type vfC24Witness struct {
	Seed, Shard, DB, Stmt int
	Statement             string
	Database              []string
	Expected              any
	Actual                any
	Note                  string
	Stack                 string `json:",omitempty"`
}

func TestVerifC24(t *testing.T) {
	rep := vk.NewReport("C24",
		"random database (as C22) and a sequence of 30 generated statements per database: insert record (some omitting members, some reusing an existing key), "+
			"insert query into table, update <table|where|extend+where|project with key> set 1-2 columns (including key columns), delete <same forms>; each in its own update transaction; "+
			"a case is one statement on the current database state; non-trivial = the statement selects/inserts at least one row or must be refused; distinct by (database state, statement)",
		"trusted base: core single value operations and Pack; db19 key enforcement (C07) is observed, not trusted: a statement whose result would violate a key must be refused and leave the table unchanged",
		"statements whose selection depends on ordering \"\" against a number/boolean are skipped (documented exception); an update that moves a key onto the old key of another row may be refused or succeed (row order dependent) and is accepted either way")
	defer rep.Finish()
	vfInitEngine()
	th := &Thread{}
	n := vk.N(5000, 80000)
	const perDB = 30
	if dc := os.Getenv("VERIF_DEBUG_CASE"); dc != "" { // developer aid: replay one database up to a statement
		target, _ := strconv.Atoi(dc)
		dbi := target / perDB
		d := vfGenDB(vk.RandFor(24, dbi), 25)
		for si := dbi * perDB; si <= target; si++ {
			if si == target {
				d.desc = nil
				for _, l := range d.describe() {
					fmt.Println(l)
				}
				vfC24Debug = true
			}
			vfC24Case(rep, d, dbi, si, th)
		}
		return
	}
	for si := 0; si < n; {
		dbi := si / perDB
		rep.Case("db %d (generating)", dbi)
		d := vfGenDB(vk.RandFor(24, dbi), 25)
		for j := 0; j < perDB && si < n; j, si = j+1, si+1 {
			vfC24Case(rep, d, dbi, si, th)
		}
		d.db.PersistSync() // the check reads the persisted state
		if err := d.db.Check(true); err != nil {
			rep.Violate("C24/database-check-failed", fmt.Sprintf("db=%d/%d/%d", vk.Seed(), vk.Shard(), dbi), fmt.Sprint(err))
		}
		d.close()
	}
}

func vfC24Case(rep *vk.Report, d *vfDB, dbi, si int, th *Thread) {
	r := vk.RandFor(2400, si)
	g := &vfC24Gen{r: r, d: d}
	t := vfPick(r, d.tables)
	var st *vfStmt
	func() {
		defer func() {
			if e := recover(); e != nil {
				if _, ok := e.(vfTooBig); !ok {
					panic(e)
				}
			}
		}()
		switch x := r.IntN(10); {
		case si%12 == 11:
			st = g.notUpdateable(t)
		case x < 3:
			st = g.insertRecord(t)
		case x < 5:
			st = g.insertQuery(t)
		case x < 8:
			st = g.update(t)
		default:
			st = g.delete(t)
		}
	}()
	if st == nil {
		rep.Count("gen_skipped", 1)
		return
	}
	rep.Case("db %d stmt %d: %s", dbi, si, st.text)
	if vfC24Debug {
		fmt.Println("STATEMENT:", st.text, "\n expect count", st.count, "mustFail", st.mustFail, "mayFail", st.mayFail, "open", st.open)
		for _, l := range vfRowsText(st.newRows, vfColNames(st.target.cols), 100) {
			fmt.Println("   want", l)
		}
		defer func() {
			res, _, _, _ := vfExec(d, st.target.name, vfCfg{name: "base", mode: ReadMode, setup: "setup", dir: Next}, th)
			for _, l := range vfRowsText(res.rows, res.cols, 100) {
				fmt.Println("   have", l)
			}
		}()
	}
	if st.open {
		rep.Count("open_skipped", 1)
		return
	}
	d.desc = nil
	for _, tb := range d.tables {
		tb.persisted = 0
	}
	before := d.describe()
	changed := st.count > 0 || st.mustFail || st.refuse != ""
	rep.Eval(vk.Hash64(d.dbHashNow(), st.text), changed)
	rep.Count("stmt_"+st.kind, 1)
	key := fmt.Sprintf("%s  db=%d/%d/%d stmt=%d", st.text, vk.Seed(), vk.Shard(), dbi, si)
	wit := func(note string, exp, act any) *vfC24Witness {
		return &vfC24Witness{Seed: vk.Seed(), Shard: vk.Shard(), DB: dbi, Stmt: si, Statement: st.text, Database: before, Expected: exp, Actual: act, Note: note}
	}
	ut := d.db.NewUpdateTran()
	var got int
	p, stack := vk.Catch(func() { got = DoAction(th, ut, st.text) })
	if p != nil {
		ut.Abort()
		msg := fmt.Sprint(p)
		rep.Seen("errors", vk.Trunc(vfNormMsg(msg), 50))
		lbl := vfEngineFailLabel(msg, stack)
		switch {
		case st.refuse != "":
			rep.Count("not_updateable_refused", 1)
			if !strings.Contains(msg, st.refuse) && lbl == "" {
				w := wit("refused, but not as a query that is not updateable", st.refuse, msg)
				w.Stack = vk.Trunc(stack, 2500)
				rep.Violate("C24/wrong-error/not-updateable/"+st.kind, key, w)
			}
		case st.kind == "insertq" && lbl != "":
			// the source query itself failed inside the query engine (C22's subject)
			w := wit("the source query of the insert failed in the query engine", nil, msg)
			w.Stack = vk.Trunc(stack, 2500)
			rep.Violate("C24/source-query-failed/"+lbl, key, w)
		case st.mustFail || st.mayFail:
			if !strings.Contains(msg, "duplicate key") {
				w := wit("refused, but not with a duplicate key error", "duplicate key error", msg)
				w.Stack = vk.Trunc(stack, 2500)
				cl := "C24/wrong-error/" + st.kind
				if lbl := vfC24Diagnose(st, nil, nil); lbl != "" {
					cl += "/" + lbl
				}
				rep.Violate(cl, key, w)
			}
			rep.Count("refused_as_expected", 1)
			if st.mayFail && !st.mustFail {
				rep.Count("transient_collision_refused", 1)
			}
		default:
			w := wit("statement failed although its result is valid", fmt.Sprintf("%d rows", st.count), msg)
			w.Stack = vk.Trunc(stack, 2500)
			cl := "C24/unexpected-error/" + st.kind + "/" + vfPanicSite(p, stack)
			if lbl := vfC24Diagnose(st, nil, nil); lbl != "" {
				cl = "C24/unexpected-error/" + st.kind + "/" + lbl
			}
			rep.Violate(cl, key, w)
		}
		// a failed statement must leave the table as it was
		vfC24Compare(rep, d, st, st.target.rows, key, "after refused statement", wit, th)
		return
	}
	d.db.CommitMerge(ut)
	if st.refuse != "" {
		rep.Count("not_updateable_accepted_after_simplification", 1)
		if !st.acceptable {
			rep.Violate("C24/statement-on-non-updateable-query-accepted/"+st.kind, key,
				wit("the query is not updateable (summarize with rows) but the statement succeeded", "refusal: "+st.refuse, got))
			vfC24Resync(d, st.target, th)
			return
		}
		// accepted (the optimizer may have simplified the query): it may only have acted on all rows behind the selection
		if !vfC24Compare(rep, d, st, st.ifAccepted, key, "after a statement on a query that is not updateable as written (no key kept by the project / union)", wit, th) {
			vfC24Resync(d, st.target, th)
		} else {
			st.target.rows = st.ifAccepted
		}
		return
	}
	if st.mustFail {
		cl := "C24/key-violation-accepted/" + st.kind
		if lbl := vfC24Diagnose2(st, nil, nil, got == 0); lbl != "" {
			cl += "/" + lbl
		}
		rep.Violate(cl, key, wit("the result violates a key of the table but the statement succeeded", "refusal", got))
		// the model cannot follow: resync it from the engine
		vfC24Resync(d, st.target, th)
		return
	}
	if st.mayFail {
		rep.Count("transient_collision_succeeded", 1)
	}
	rep.Count("succeeded", 1)
	rep.Count("rows_affected", st.count)
	if got != st.count {
		cl := "C24/count-differs/" + st.kind
		if lbl := vfC24Diagnose2(st, nil, nil, got == 0); lbl != "" && (lbl != "update-revisits-rows-moved-in-iteration-index" || got > st.count) {
			cl += "/" + lbl
		}
		rep.Violate(cl, key, wit("reported count differs from the number of selected rows"+vfNoteSuffix(st), st.count, got))
	}
	if vfC24Compare(rep, d, st, st.newRows, key, "after statement"+vfNoteSuffix(st), wit, th) {
		st.target.rows = st.newRows
	} else {
		vfC24Resync(d, st.target, th)
	}
}

func vfNoteSuffix(st *vfStmt) string {
	if st.note != "" {
		return " (" + st.note + ")"
	}
	return ""
}

func vfNormMsg(s string) string {
	var sb strings.Builder
	for _, c := range s {
		if c >= '0' && c <= '9' {
			sb.WriteByte('N')
		} else {
			sb.WriteRune(c)
		}
	}
	return sb.String()
}

// vfC24Compare reads the target table through the engine and compares it with want.
func vfC24Compare(rep *vk.Report, d *vfDB, st *vfStmt, want []vfRow, key, note string,
	wit func(string, any, any) *vfC24Witness, th *Thread) bool {
	cols := vfColNames(st.target.cols)
	res, stage, p, _ := vfExec(d, st.target.name, vfCfg{name: "base", mode: ReadMode, setup: "setup", dir: Next}, th)
	if p != nil {
		rep.Violate("C24/table-unreadable", key, wit("reading the table failed at "+stage, nil, fmt.Sprint(p)))
		return false
	}
	rep.Count("table_compares", 1)
	rep.Count("rows_compared", len(res.rows))
	onlyM, onlyE := vfDiff(want, res.rows, cols)
	if len(onlyM)+len(onlyE) > 0 {
		cl := "C24/table-differs/" + st.kind
		if strings.HasPrefix(note, "after refused") {
			cl = "C24/refused-statement-changed-table/" + st.kind
		} else if st.refuse != "" {
			cl = "C24/statement-on-non-updateable-query-changed-wrong-rows/" + st.kind
		} else if lbl := vfC24Diagnose2(st, want, res.rows, len(vfDiffCount(st.target.rows, res.rows, cols)) == 0); lbl != "" {
			cl += "/" + lbl
		}
		rep.Violate(cl, key, wit(note+": table content differs from the model", map[string]any{"only_in_model": vfTruncList(onlyM, 10), "rows": len(want)},
			map[string]any{"only_in_table": vfTruncList(onlyE, 10), "rows": len(res.rows)}))
		return false
	}
	return true
}

func vfC24Resync(d *vfDB, t *vfTable, th *Thread) {
	res, _, p, _ := vfExec(d, t.name, vfCfg{name: "base", mode: ReadMode, setup: "setup", dir: Next}, th)
	if p == nil {
		t.rows = res.rows
	}
}

// dbHashNow hashes the current contents (the cached describe is per state).
func (d *vfDB) dbHashNow() uint64 {
	d.hash = 0
	return d.dbHash()
}

// vfC24Diagnose recognises the analysed defects (known_findings.d/C24.jsonl) so they get their own class.
func vfC24Diagnose(st *vfStmt, want, got []vfRow) string {
	return vfC24Diagnose2(st, want, got, false)
}

// selectedNothing: the engine behaved as if the statement's query selected no rows
func vfC24Diagnose2(st *vfStmt, want, got []vfRow, selectedNothing bool) string {
	if selectedNothing && st.q != nil && vfHasEmptyRangeInOr(st.q) {
		return "where-or-with-empty-range-becomes-nothing"
	}
	if st.kind == "insertq" && st.readsTarget {
		return "insert-query-reads-its-target-table"
	}
	if st.kind != "update" {
		return ""
	}
	// (the update-through-project defect is repaired, commit 9b34cd1: no label for it any more)
	if st.movesKey {
		return "update-revisits-rows-moved-in-iteration-index"
	}
	return ""
}

// vfDiffCount returns the differing row texts of two row multisets (empty = equal).
func vfDiffCount(a, b []vfRow, cols []string) []string {
	x, y := vfDiff(a, b, cols)
	return append(x, y...)
}
