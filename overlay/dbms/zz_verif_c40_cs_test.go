// C40 Client-server access behaves like local access.
//
// In-package monitor (package dbms), race build. The server side is reached exactly like
// the repository's TestClientServer: newServerConn on one end of a net.Pipe, real TLS with
// the fixture certificate. The client side is the repository's real client
// (NewDbmsClient / muxSession) on top of a wrapper that cuts every write into PRNG-sized
// fragments (each becomes its own TLS record, so the server's mux reader sees them) and
// returns short counts from reads (the client's mux reader sees them).
//
//  A differential: a generated request program (admin, transactions, actions, queries,
//    cursors, get-one, output/update/erase, keys/order/header/strategy, run/exec, misc) is
//    executed op by op through a mux session on database 1 and directly on a DbmsLocal over
//    database 2 which was built identically; every result and error string must be equal and
//    the program's tables must be equal afterwards.
//  B multiplexing: while A runs, S sessions on the SAME connection issue echo requests
//    (SessionId, Run of a string literal) whose replies embed session, sequence number and a
//    length-determined pattern, sizes 0 .. just under the 1 MiB message limit; each session
//    must receive exactly its own reply, complete, for every request in order.
//  C the same echo discipline directly on dbms/mux (exported API only) over a pipe that is
//    fragmented in both directions, message sizes up to the limit.

//go:build !gui

package dbms

import (
	"fmt"
	"io"
	"log"
	"math/rand/v2"
	"net"
	"os"
	"runtime"
	"sort"
	"strings"
	"sync"
	"sync/atomic"
	"testing"
	"time"

	"crypto/tls"

	. "github.com/apmckinlay/gsuneido/core"
	"github.com/apmckinlay/gsuneido/db19"
	"github.com/apmckinlay/gsuneido/db19/stor"
	"github.com/apmckinlay/gsuneido/dbms/mux"
	"github.com/apmckinlay/gsuneido/options"
	"github.com/apmckinlay/gsuneido/util/dnum"
	vk "github.com/apmckinlay/gsuneido/util/verifkit"
)

// ---------------------------------------------------------------------------------------
// fragmenting connection

type vfC40Frag struct {
	c       net.Conn
	rr, wr  *rand.Rand // separate streams: reads come from one goroutine, writes are serialized by mux
	nreads  atomic.Int64
	nshort  atomic.Int64
	nwrites atomic.Int64
	nfrags  atomic.Int64
}

func vfC40Piece(r *rand.Rand, n int) int {
	if n <= 1 {
		return n
	}
	switch r.IntN(6) {
	case 0:
		return 1
	case 1:
		return 1 + r.IntN(min(n, 12)) // around the 9 byte frame header
	case 2:
		return 1 + r.IntN(min(n, 4200)) // around the 4 KiB write buffer
	case 3:
		return 1 + r.IntN(n)
	}
	return n
}

func (f *vfC40Frag) Read(p []byte) (int, error) {
	n := vfC40Piece(f.rr, len(p))
	f.nreads.Add(1)
	if n < len(p) {
		f.nshort.Add(1)
	}
	return f.c.Read(p[:n])
}

func (f *vfC40Frag) Write(p []byte) (int, error) {
	f.nwrites.Add(1)
	total := 0
	for pieces := 0; len(p) > 0; pieces++ {
		n := len(p)
		if pieces < 12 {
			n = vfC40Piece(f.wr, n)
		}
		f.nfrags.Add(1)
		m, err := f.c.Write(p[:n])
		total += m
		if err != nil {
			return total, err
		}
		p = p[n:]
	}
	return total, nil
}

func (f *vfC40Frag) Close() error                       { return f.c.Close() }
func (f *vfC40Frag) LocalAddr() net.Addr                { return f.c.LocalAddr() }
func (f *vfC40Frag) RemoteAddr() net.Addr               { return f.c.RemoteAddr() }
func (f *vfC40Frag) SetDeadline(t time.Time) error      { return f.c.SetDeadline(t) }
func (f *vfC40Frag) SetReadDeadline(t time.Time) error  { return f.c.SetReadDeadline(t) }
func (f *vfC40Frag) SetWriteDeadline(t time.Time) error { return f.c.SetWriteDeadline(t) }

var _ io.ReadWriteCloser = (*vfC40Frag)(nil)

// ---------------------------------------------------------------------------------------
// echo payloads: content is determined by (session, seq, size)

const vfC40Alpha = "abcdefghijklmnopqrstuvwxyz0123456789"

func vfC40Payload(kind string, sess, seq, size int) string {
	head := fmt.Sprintf("%s.s%d.q%d.n%d.", kind, sess, seq, size)
	if size <= len(head) {
		return head[:size]
	}
	b := make([]byte, size)
	copy(b, head)
	x := uint32(sess*7919 + seq*104729 + size)
	for i := len(head); i < size; i++ {
		x = x*1664525 + 1013904223
		b[i] = vfC40Alpha[(x>>16)%36]
	}
	return string(b)
}

var vfC40Sizes = []int{0, 1, 2, 8, 9, 10, 100, 4000, 4075, 4076, 4077, 4078, 4079, 4080, 4081, 4082, 4083, 4084, 4085, 4086, 4087, 4088, 4089,
	4090, 4095, 4096, 4097, 4100, 8180, 8192, 8200, 16370, 16384, 16400, 20000, 65535, 65536, 70000, 131072, 300000,
	524288, 1000000, 1048000, 1048500, 1048540}

func vfC40Size(r *rand.Rand, big bool) int {
	if big {
		switch r.IntN(3) {
		case 0:
			return []int{1000000, 1048000, 1048500, 1048540, 1048539}[r.IntN(5)]
		case 1:
			return []int{131072, 300000, 524288, 70000}[r.IntN(4)]
		}
		return r.IntN(1048540)
	}
	switch r.IntN(10) {
	case 0, 1, 2, 3:
		return r.IntN(200)
	case 4, 5:
		return 3900 + r.IntN(400)
	case 6:
		return r.IntN(40000)
	case 7, 8:
		n := vfC40Sizes[r.IntN(len(vfC40Sizes))]
		if n > 70000 && !big {
			n = 4000 + r.IntN(300)
		}
		return n
	}
	if big {
		return r.IntN(1048540)
	}
	return r.IntN(9000)
}

func vfC40DescribeDiff(got, want string) map[string]any {
	i := 0
	for i < len(got) && i < len(want) && got[i] == want[i] {
		i++
	}
	return map[string]any{"len_got": len(got), "len_want": len(want), "first_difference_at": i,
		"got_head": vk.Trunc(got, 60), "want_head": vk.Trunc(want, 60),
		"got_at_diff": vk.Trunc(got[min(i, len(got)):], 40), "want_at_diff": vk.Trunc(want[min(i, len(want)):], 40)}
}

// ---------------------------------------------------------------------------------------
// differential interpreter

type vfC40Side struct {
	name    string
	d       IDbms
	sv      *Sviews
	th      *Thread
	trans   map[int]ITran
	queries map[int]IQuery
	cursors map[int]ICursor
	hdrs    map[int]*Header
	qtran   map[int]int // query handle -> transaction handle
	// offs: transaction|table|packed key -> record offset on this side. Like SuRecord, the
	// monitor only passes an offset back in the transaction that read the row, and forgets it
	// when the row is updated/erased, when an action runs in the transaction, and when the
	// transaction ends (db19 trusts the offsets it is given).
	offs map[string]uint64
	last map[int][2]string // transaction -> (table, packed key) of the row it read most recently
}

func vfC40OffKey(tran int, tbl, key string) string { return fmt.Sprintf("%d|%s|%s", tran, tbl, key) }

func (sd *vfC40Side) forget(tran int) {
	pre := fmt.Sprintf("%d|", tran)
	for k := range sd.offs {
		if strings.HasPrefix(k, pre) {
			delete(sd.offs, k)
		}
	}
	delete(sd.last, tran)
}

// withKey returns rec with its first field (k) replaced by the packed key
func vfC40WithKey(rec Record, key string) Record {
	var rb RecordBuilder
	rb.AddRaw(key)
	for i := 1; i < rec.Len(); i++ {
		rb.AddRaw(rec.GetRaw(i))
	}
	return rb.Build()
}

func vfC40NewSide(name string, d IDbms) *vfC40Side {
	th := NewThread(nil)
	sv := &Sviews{}
	th.SetSviews(sv) // what a local session's thread carries; the client-server side ignores it (the server keeps its own per connection)
	return &vfC40Side{name: name, d: d, th: th, sv: sv, trans: map[int]ITran{}, queries: map[int]IQuery{},
		cursors: map[int]ICursor{}, hdrs: map[int]*Header{}, qtran: map[int]int{}, offs: map[string]uint64{}, last: map[int][2]string{}}
}

func vfC40ErrStr(e any) string {
	var s string
	if t, ok := e.(interface{ ToStr() (string, bool) }); ok {
		if x, ok := t.ToStr(); ok {
			s = x
		} else {
			s = fmt.Sprint(e)
		}
	} else {
		s = fmt.Sprint(e)
	}
	s = strings.TrimSuffix(s, " (from server)")
	return s
}

// row renders a row by column name (offsets are per database and are not compared)
func (sd *vfC40Side) row(row Row, hdr *Header, tbl string, keycol string, tran int) string {
	if row == nil {
		return "eof"
	}
	cols := append([]string(nil), hdr.Columns...)
	sort.Strings(cols)
	var sb strings.Builder
	sb.WriteString("row[" + tbl + "]")
	for _, c := range cols {
		raw := row.GetRaw(hdr, c)
		if len(raw) > 48 {
			fmt.Fprintf(&sb, " %s=%q..(%d,%x)", c, raw[:24], len(raw), vk.Hash64(raw))
		} else {
			fmt.Fprintf(&sb, " %s=%q", c, raw)
		}
	}
	if tbl != "" && keycol != "" && len(row) == 1 && tran != 0 {
		sd.offs[vfC40OffKey(tran, tbl, row.GetRaw(hdr, keycol))] = row[0].Off
		sd.last[tran] = [2]string{tbl, row.GetRaw(hdr, keycol)}
	}
	return sb.String()
}

type vfC40Op struct {
	kind   string
	h, h2  int
	s      string
	b      bool
	dir    Dir
	val    Value
	rec    Record
	key    string // packed key value for update/erase
	sorted bool
	nocmp  bool // result is legitimately database/time specific: only success/failure is compared
	marker int  // complete: key of the marker row written just before
}

func (op *vfC40Op) String() string {
	s := op.kind
	if op.h != 0 {
		s += fmt.Sprintf(" h%d", op.h)
	}
	if op.h2 != 0 {
		s += fmt.Sprintf(" t%d", op.h2)
	}
	if op.s != "" {
		s += " " + vk.Trunc(fmt.Sprintf("%q", op.s), 160)
	}
	if op.dir != 0 {
		s += " " + string(rune(op.dir))
	}
	if op.val != nil {
		s += " " + vk.Trunc(op.val.String(), 120)
	}
	if op.rec != "" {
		s += fmt.Sprintf(" rec(%d bytes)", len(op.rec))
	}
	if op.key != "" {
		s += fmt.Sprintf(" key=%q", op.key)
	}
	if op.b {
		s += " true"
	}
	return s
}

// reset forgets the handles of the previous program (the handle numbers start again)
func (sd *vfC40Side) reset() {
	sd.trans, sd.queries, sd.cursors = map[int]ITran{}, map[int]IQuery{}, map[int]ICursor{}
	sd.hdrs, sd.offs, sd.qtran = map[int]*Header{}, map[string]uint64{}, map[int]int{}
	sd.last = map[int][2]string{}
}

var vfC40ReadCounterMoves atomic.Int64

func (sd *vfC40Side) exec(op *vfC40Op) (res string) {
	st := sd.th.GetState()
	p, _ := vk.Catch(func() { res = sd.exec1(op) })
	if p != nil {
		// what every top level of the interpreter does when an exception gets there (the server per request, the REPL,
		// the message loop): without it each failed request leaves its frames on the thread until its 256 are used up
		sd.th.RestoreState(st)
		if re, ok := p.(runtime.Error); ok {
			return "ERR(runtime) " + re.Error()
		}
		return "ERR " + vfC40ErrStr(p)
	}
	return res
}

func (sd *vfC40Side) exec1(op *vfC40Op) string {
	d, th := sd.d, sd.th
	switch op.kind {
	case "admin":
		d.Admin(op.s, sd.sv)
		return "ok"
	case "tran":
		t := d.Transaction(op.b)
		n := t.Num()
		dup := false
		for _, t2 := range sd.trans {
			if t2.Num() == n {
				dup = true
			}
		}
		sd.trans[op.h] = t
		if op.b && sd.name == "client-server" {
			// a long-running server has handed out arbitrarily many read transaction numbers: move the (process
			// wide) read counter up to just below this update transaction's number, so that the numbers of
			// transactions open in one session are close together (never moved backwards: numbers stay unique)
			target := int32(n) - int32(2*(n/2%3)) - 1
			if prev := db19.VerifSetNextReadTran(target); prev > target {
				db19.VerifSetNextReadTran(prev)
			} else {
				vfC40ReadCounterMoves.Add(1)
			}
		}
		if dup {
			return fmt.Sprintf("ERR transaction number %d is already used by an open transaction of this session", n)
		}
		return "ok"
	case "complete":
		t := sd.trans[op.h]
		delete(sd.trans, op.h)
		sd.forget(op.h)
		return "complete: " + t.Complete()
	case "abort":
		t := sd.trans[op.h]
		delete(sd.trans, op.h)
		sd.forget(op.h)
		t.Abort()
		return "ok"
	case "action":
		sd.forget(op.h2)
		return fmt.Sprint("n=", sd.trans[op.h2].Action(th, op.s))
	case "query":
		q := sd.trans[op.h2].Query(op.s, sd.sv)
		sd.queries[op.h] = q
		sd.qtran[op.h] = op.h2
		return "ok"
	case "cursor":
		c := d.Cursor(op.s, sd.sv)
		sd.cursors[op.h] = c
		return "ok"
	case "header":
		hdr := sd.qc(op.h).Header()
		sd.hdrs[op.h] = hdr
		cols := append([]string(nil), hdr.Columns...)
		sort.Strings(cols)
		return "columns " + strings.Join(cols, ",")
	case "keys":
		k := append([]string(nil), sd.qc(op.h).Keys()...)
		sort.Strings(k)
		return "keys " + strings.Join(k, " | ")
	case "order":
		return "order " + strings.Join(sd.qc(op.h).Order(), ",")
	case "strategy":
		sd.qc(op.h).Strategy(op.b)
		return "ok"
	case "rewind":
		sd.qc(op.h).Rewind()
		return "ok"
	case "close":
		qc := sd.qc(op.h)
		delete(sd.queries, op.h)
		delete(sd.cursors, op.h)
		delete(sd.hdrs, op.h)
		qc.Close()
		return "ok"
	case "get":
		hdr := sd.header(op.h)
		row, tbl := sd.queries[op.h].Get(th, op.dir)
		return sd.row(row, hdr, tbl, op.s, sd.qtran[op.h])
	case "cget":
		hdr := sd.header(op.h)
		row, tbl := sd.cursors[op.h].Get(th, sd.trans[op.h2], op.dir)
		return sd.row(row, hdr, tbl, op.s, op.h2)
	case "scan": // full forward scan, compared as a multiset
		hdr := sd.header(op.h)
		var rows []string
		for i := 0; i < 5000; i++ {
			row, tbl := sd.queries[op.h].Get(th, Next)
			if row == nil {
				break
			}
			rows = append(rows, sd.row(row, hdr, tbl, op.s, sd.qtran[op.h]))
		}
		sort.Strings(rows)
		return fmt.Sprintf("scan %d rows %x\n%s", len(rows), vk.Hash64(strings.Join(rows, "\n")), vk.Trunc(strings.Join(rows, "\n"), 1500))
	case "output":
		sd.queries[op.h].Output(th, op.rec)
		return "ok"
	case "getone":
		var row Row
		var hdr *Header
		var tbl string
		if op.h2 != 0 {
			row, hdr, tbl = sd.trans[op.h2].Get(th, op.val, op.dir)
		} else {
			row, hdr, tbl = d.Get(th, op.val, op.dir)
		}
		if row == nil {
			return "none"
		}
		if op.dir == Strat {
			return "ok"
		}
		if op.dir == Any {
			return "exists"
		}
		return sd.row(row, hdr, tbl, op.s, op.h2)
	case "update": // the row this transaction read most recently (from a plain single-table query)
		l, have := sd.last[op.h2]
		ok_ := vfC40OffKey(op.h2, l[0], l[1])
		off, ok := sd.offs[ok_]
		if !have || !ok {
			return "no-offset"
		}
		delete(sd.offs, ok_)
		newoff := sd.trans[op.h2].Update(th, l[0], off, vfC40WithKey(op.rec, l[1]))
		sd.offs[ok_] = newoff // SuRecord keeps the new offset after Update
		return fmt.Sprintf("ok %s %q", l[0], l[1])
	case "erase":
		l, have := sd.last[op.h2]
		ok_ := vfC40OffKey(op.h2, l[0], l[1])
		off, ok := sd.offs[ok_]
		if !have || !ok {
			return "no-offset"
		}
		delete(sd.offs, ok_)
		delete(sd.last, op.h2)
		sd.trans[op.h2].Delete(th, l[0], off)
		return fmt.Sprintf("ok %s %q", l[0], l[1])
	case "readcount":
		return fmt.Sprint("n=", sd.trans[op.h2].ReadCount())
	case "writecount":
		return fmt.Sprint("n=", sd.trans[op.h2].WriteCount())
	case "asof":
		sd.trans[op.h2].Asof(0)
		return "ok"
	case "check":
		return "check: " + d.Check(op.b)
	case "libraries":
		return strings.Join(d.Libraries(), ",")
	case "libget":
		defs := d.LibGet(op.s)
		var sb strings.Builder
		for i, s := range defs {
			fmt.Fprintf(&sb, "[%d]%d:%x ", i, len(s), vk.Hash64(s))
		}
		return sb.String()
	case "cursors":
		return fmt.Sprint("n=", d.Cursors())
	case "sessionid":
		return d.SessionId(th, op.s)
	case "run":
		v := d.Run(th, op.s)
		if v == nil {
			return "nil"
		}
		return vfC40ValStr(v)
	case "exec":
		v := d.Exec(th, op.val)
		if v == nil {
			return "nil"
		}
		return vfC40ValStr(v)
	case "kill":
		return fmt.Sprint("n=", d.Kill(op.s))
	case "log":
		d.Log(op.s)
		return "ok"
	case "timestamp":
		d.Timestamp()
		return "ok"
	case "size":
		d.Size()
		return "ok"
	case "info":
		d.Info()
		return "ok"
	case "final":
		d.Final()
		return "ok"
	case "transactions":
		d.Transactions()
		return "ok"
	}
	panic("C40 harness: unknown op " + op.kind)
}

func vfC40ValStr(v Value) string {
	s := v.String()
	if len(s) > 200 {
		return fmt.Sprintf("%s..(%d,%x)", s[:100], len(s), vk.Hash64(s))
	}
	return fmt.Sprintf("%T %s", v, s)
}

func (sd *vfC40Side) qc(h int) IQueryCursor {
	if q, ok := sd.queries[h]; ok {
		return q
	}
	return sd.cursors[h]
}

func (sd *vfC40Side) header(h int) *Header {
	hdr := sd.hdrs[h]
	if hdr == nil {
		hdr = sd.qc(h).Header()
		sd.hdrs[h] = hdr
	}
	return hdr
}

// ---------------------------------------------------------------------------------------
// program generator

type vfC40Gen struct {
	r       *rand.Rand
	id      int
	T, U    string
	cols    []string // physical fields of T
	nextH   int
	trans   []vfC40H // open transactions
	queries []vfC40H
	cursors []vfC40H
	keys    []int // keys probably present (generation aid only)
	nextKey int
	big     bool
	// writer is the open update transaction that has issued writes. While it is open no other
	// transaction of the program writes: db19 picks the victim of a conflict between two ACTIVE
	// writers at random (check.go abort1of), which is legal nondeterminism. Conflicts with
	// committed writers and with readers are deterministic and are generated.
	writer  int
	pending []*vfC40Op
	markers int
	sview   string // a session view defined by this program ("" = none yet)
	droppedB bool  // column b of the program's table has been dropped (alter drop)
}

// finish returns the ops that end transaction t: for an update transaction that may write, a
// marker row is written first; after the commit the monitor looks for it in the database, so the
// reported outcome of the commit is checked against its effect on each side separately.
func (g *vfC40Gen) finish(t vfC40H, abort bool) *vfC40Op {
	kind := "complete"
	if abort {
		kind = "abort"
	}
	end := &vfC40Op{kind: kind, h: t.h}
	if t.update && !abort && g.canWrite(t) {
		g.markers++
		end.marker = 5000000 + g.markers
		g.pending = append(g.pending, end)
		g.markWrite(t)
		g.dropTran(t.h)
		return &vfC40Op{kind: "action", h2: t.h, s: fmt.Sprintf("insert { k: %d, c: 'marker' } into %s", end.marker, g.U)}
	}
	g.dropTran(t.h)
	return end
}

func (g *vfC40Gen) canWrite(t vfC40H) bool { return !t.update || g.writer == 0 || g.writer == t.h }

func (g *vfC40Gen) markWrite(t vfC40H) {
	if t.update {
		g.writer = t.h
	}
}

func (g *vfC40Gen) tranOf(h int) (vfC40H, bool) {
	for _, t := range g.trans {
		if t.h == h {
			return t, true
		}
	}
	return vfC40H{}, false
}

// feedback: an op that was meant to create a transaction/query/cursor failed (on the reference side)
func (g *vfC40Gen) feedback(op *vfC40Op, res string) {
	if !strings.HasPrefix(res, "ERR") {
		return
	}
	switch op.kind {
	case "tran":
		g.dropTran(op.h)
	case "query", "cursor":
		g.dropQC(op.h)
	}
}

// opTran returns the transaction an op works in (0 = none)
func (g *vfC40Gen) opTran(op *vfC40Op) int {
	switch op.kind {
	case "complete", "abort", "tran":
		return op.h
	case "get", "scan", "output", "header", "keys", "order", "strategy", "rewind", "close":
		for _, q := range g.queries {
			if q.h == op.h {
				return q.tran
			}
		}
		return 0
	}
	return op.h2
}

type vfC40H struct {
	h      int
	tran   int
	update bool
	sorted bool
	table  string // source table when single-table updateable
	text   string
}

func (g *vfC40Gen) value(bigOK bool) Value {
	r := g.r
	switch r.IntN(12) {
	case 0:
		return IntVal(r.IntN(10))
	case 1:
		return IntVal(int(r.Int64()))
	case 2:
		return IntVal(-r.IntN(100000))
	case 3:
		return SuDnum{Dnum: dnum.FromStr(fmt.Sprintf("%d.%03d", r.IntN(1000)-500, r.IntN(1000)))}
	case 4:
		return SuBool(r.IntN(2) == 0)
	case 5:
		return NormalizeDate(1990+r.IntN(60), 1+r.IntN(12), 1+r.IntN(28), r.IntN(24), r.IntN(60), r.IntN(60), r.IntN(1000))
	case 6:
		return EmptyStr
	case 7: // binary string
		b := make([]byte, r.IntN(40))
		for i := range b {
			b[i] = byte(r.IntN(256))
		}
		return SuStr(string(b))
	case 8:
		ob := &SuObject{}
		ob.Add(IntVal(r.IntN(100)))
		ob.Add(SuStr("x"))
		ob.Set(SuStr("name"), SuStr(fmt.Sprint("v", r.IntN(100))))
		return ob
	case 9:
		if bigOK {
			n := []int{3000, 4090, 5000, 17000, 70000}[r.IntN(5)]
			if g.big && r.IntN(3) == 0 {
				n = []int{200000, 600000, 990000}[r.IntN(3)]
			}
			return SuStr(vfC40Payload("big", g.id, r.IntN(1000), n))
		}
	}
	return SuStr(fmt.Sprint("str", r.IntN(1000)))
}

func (g *vfC40Gen) record(k int) Record {
	var rb RecordBuilder
	for _, c := range g.cols {
		switch c {
		case "k":
			rb.Add(IntVal(k))
		case "a":
			rb.Add(IntVal(g.r.IntN(8)))
		case "s":
			rb.Add(g.value(true).(Packable))
		default:
			rb.Add(g.value(false).(Packable))
		}
	}
	return rb.Build()
}

func (g *vfC40Gen) lit(v Value) string {
	switch x := v.(type) {
	case SuStr:
		return fmt.Sprintf("%q", "s"+strings.Map(func(c rune) rune {
			if c < 32 || c > 126 || c == '"' || c == '\\' {
				return 'x'
			}
			return c
		}, vk.Trunc(string(x), 40)))
	case *SuObject:
		return "#(1, 2, a: 3)"
	}
	return v.String()
}

func (g *vfC40Gen) queryText() (string, bool, string) {
	T, U, r := g.T, g.U, g.r
	k := g.nextKey
	type q struct {
		s      string
		sorted bool
		tbl    string
	}
	if g.sview != "" && r.IntN(5) == 0 {
		return []string{g.sview + " sort k", g.sview + " where a < 6 sort k", g.sview + " project k, a sort k"}[r.IntN(3)], true, ""
	}
	qs := []q{
		{T, false, T}, {T + " sort k", true, T}, {T + " sort reverse k", true, T},
		{fmt.Sprintf("%s where a = %d sort k", T, r.IntN(8)), true, T},
		{fmt.Sprintf("%s where k >= %d sort k", T, r.IntN(k+1)), true, T},
		{fmt.Sprintf("%s where k = %d", T, r.IntN(k+1)), true, T},
		{fmt.Sprintf("%s where a in (1,2,3) sort a, k", T), true, T},
		{T + " project k, a sort k", true, ""},
		{T + " project a", false, ""},
		{T + " extend x = a * 2, y = k $ 'z' sort k", true, ""},
		{T + " rename a to aa sort k", true, ""},
		{T + " summarize count, total a, max k", false, ""},
		{T + " summarize a, count sort a", true, ""},
		{T + " join " + U + " sort k", true, ""},
		{T + " leftjoin " + U + " sort k", true, ""},
		{U + " sort k", true, U},
		{"(" + T + " project k) union (" + U + " project k) sort k", true, ""},
		{T + " where s > 'm' sort k", true, T},
		{fmt.Sprintf("%s where k in (%d, %d, %d) sort k", T, r.IntN(k+1), r.IntN(k+1), r.IntN(k+1)), true, T},
		{"tables where table = '" + T + "'", false, ""},
		{"columns where table = '" + T + "' sort column", true, ""},
		{"indexes where table = '" + T + "'", false, ""},
		// invalid
		{T + "_nosuch", false, ""}, {T + " where", false, ""}, {T + " sort zz", false, ""}, {T + " where a = ", false, ""},
		{T + " join " + T, false, ""}, {"", false, ""},
	}
	c := qs[r.IntN(len(qs))]
	return c.s, c.sorted, c.tbl
}

// next produces the next op of the program; nil when the program has ended
func (g *vfC40Gen) next(step, steps int) *vfC40Op {
	r := g.r
	T, U := g.T, g.U
	if len(g.pending) > 0 {
		op := g.pending[0]
		g.pending = g.pending[1:]
		return op
	}
	if step == 0 {
		return &vfC40Op{kind: "admin", s: "create " + T + " (k, a, b, s) key(k) index(a)"}
	}
	if step == 1 {
		return &vfC40Op{kind: "admin", s: "create " + U + " (k, c) key(k)"}
	}
	if step >= steps { // wind down
		if len(g.queries) > 0 {
			q := g.queries[0]
			g.queries = g.queries[1:]
			return &vfC40Op{kind: "close", h: q.h}
		}
		if len(g.cursors) > 0 {
			q := g.cursors[0]
			g.cursors = g.cursors[1:]
			return &vfC40Op{kind: "close", h: q.h}
		}
		if len(g.trans) > 0 {
			return g.finish(g.trans[0], r.IntN(3) == 0)
		}
		return nil
	}
	for {
		x := r.IntN(100)
		switch {
		case x < 10: // start a transaction
			if len(g.trans) >= 3 {
				continue
			}
			g.nextH++
			upd := r.IntN(3) != 0
			g.trans = append(g.trans, vfC40H{h: g.nextH, update: upd})
			return &vfC40Op{kind: "tran", h: g.nextH, b: upd}
		case x < 18: // end a transaction
			if len(g.trans) == 0 {
				continue
			}
			return g.finish(g.trans[r.IntN(len(g.trans))], r.IntN(4) == 0)
		case x < 30: // action
			t, ok := g.pickTran()
			if !ok || !g.canWrite(t) {
				continue
			}
			g.markWrite(t)
			var s string
			switch r.IntN(9) {
			case 0, 1, 2:
				g.nextKey++
				g.keys = append(g.keys, g.nextKey)
				s = fmt.Sprintf("insert { k: %d, a: %d, b: %s, s: %s } into %s", g.nextKey, r.IntN(8), g.lit(g.value(false)), g.lit(g.value(false)), T)
			case 3:
				s = fmt.Sprintf("insert { k: %d, c: %s } into %s", g.someKey(), g.lit(g.value(false)), U)
			case 4:
				s = fmt.Sprintf("update %s where a = %d set b = %s", T, r.IntN(8), g.lit(g.value(false)))
			case 5:
				s = fmt.Sprintf("delete %s where k = %d", T, g.someKey())
			case 6:
				s = fmt.Sprintf("insert { k: %d, a: 1 } into %s", g.someKey(), T) // usually a duplicate key
			case 7:
				s = fmt.Sprintf("update %s where k = %d set k = %d", T, g.someKey(), g.someKey()) // key change, maybe duplicate
			default:
				s = []string{"delete " + T + "_nosuch", "insert { zz: 1 } into " + T, "update " + T + " set", "insert { k: 'x' } into " + U, ""}[r.IntN(5)]
			}
			return &vfC40Op{kind: "action", h2: t.h, s: s}
		case x < 40: // open a query
			t, ok := g.pickTran()
			if !ok || len(g.queries) >= 4 {
				continue
			}
			text, sorted, tbl := g.queryText()
			g.nextH++
			g.queries = append(g.queries, vfC40H{h: g.nextH, tran: t.h, update: t.update, sorted: sorted, table: tbl, text: text})
			return &vfC40Op{kind: "query", h: g.nextH, h2: t.h, s: text}
		case x < 44: // open a cursor
			if len(g.cursors) >= 2 {
				continue
			}
			text, sorted, tbl := g.queryText()
			g.nextH++
			g.cursors = append(g.cursors, vfC40H{h: g.nextH, sorted: sorted, table: tbl, text: text})
			return &vfC40Op{kind: "cursor", h: g.nextH, s: text}
		case x < 62: // read from a query
			if len(g.queries) == 0 {
				continue
			}
			q := g.queries[r.IntN(len(g.queries))]
			keycol := ""
			if q.table != "" {
				keycol = "k" // plain single-table query: remember the offsets of the rows for update/erase
			}
			if !q.sorted {
				return &vfC40Op{kind: "scan", h: q.h, s: keycol}
			}
			return &vfC40Op{kind: "get", h: q.h, dir: []Dir{Next, Next, Next, Prev}[r.IntN(4)], s: keycol}
		case x < 66: // read from a cursor
			if len(g.cursors) == 0 || len(g.trans) == 0 {
				continue
			}
			c := g.cursors[r.IntN(len(g.cursors))]
			if !c.sorted {
				continue
			}
			t := g.trans[r.IntN(len(g.trans))]
			keycol := ""
			if c.table != "" {
				keycol = "k"
			}
			return &vfC40Op{kind: "cget", h: c.h, h2: t.h, dir: []Dir{Next, Next, Prev}[r.IntN(3)], s: keycol}
		case x < 72: // header / keys / order / strategy / rewind / close
			var all []vfC40H
			all = append(append(all, g.queries...), g.cursors...)
			if len(all) == 0 {
				continue
			}
			q := all[r.IntN(len(all))]
			switch r.IntN(7) {
			case 0:
				return &vfC40Op{kind: "header", h: q.h}
			case 1:
				return &vfC40Op{kind: "keys", h: q.h}
			case 2:
				return &vfC40Op{kind: "order", h: q.h, nocmp: !q.sorted}
			case 3:
				return &vfC40Op{kind: "strategy", h: q.h, b: r.IntN(2) == 0, nocmp: true}
			case 4:
				return &vfC40Op{kind: "rewind", h: q.h}
			default:
				g.dropQC(q.h)
				return &vfC40Op{kind: "close", h: q.h}
			}
		case x < 80: // output through a query
			if len(g.queries) == 0 {
				continue
			}
			q := g.queries[r.IntN(len(g.queries))]
			if qt, ok := g.tranOf(q.tran); !ok || !g.canWrite(qt) {
				continue
			} else {
				g.markWrite(qt)
			}
			k := g.someKey()
			if r.IntN(3) != 0 {
				g.nextKey++
				k = g.nextKey
				g.keys = append(g.keys, k)
			}
			return &vfC40Op{kind: "output", h: q.h, rec: g.record(k)}
		case x < 86: // get-one
			var val Value
			keycol := "k"
			dir := []Dir{Only, Next, Prev, Any, Strat}[r.IntN(5)]
			ob := &SuObject{}
			switch r.IntN(5) {
			case 0:
				ob.Add(SuStr(T))
				ob.Set(SuStr("k"), IntVal(g.someKey()))
			case 1:
				ob.Add(SuStr(T + " sort k"))
			case 2:
				ob.Add(SuStr(T + " sort reverse k"))
				ob.Set(SuStr("a"), IntVal(r.IntN(8)))
			case 3:
				ob.Set(SuStr("query"), SuStr(U+" sort k"))
			default:
				text, _, tbl := g.queryText()
				ob.Add(SuStr(text))
				if tbl == "" {
					keycol = ""
				}
			}
			if r.IntN(25) == 0 {
				// an argument that cannot be sent: an object containing itself (the request is abandoned on the
				// client after part of it was buffered; locally the same value is refused too)
				ob.Set(SuStr("a"), ob)
				keycol = ""
			}
			val = ob
			op := &vfC40Op{kind: "getone", val: val, dir: dir, s: keycol}
			if ob.HasKey(SuStr("a")) && ob.Get(nil, SuStr("a")) == Value(ob) {
				op.nocmp = true // refused on both sides, for different reasons (cannot be packed / cannot be written as query text): only "is an error" is compared
			}
			if t, ok := g.pickTran(); ok && r.IntN(2) == 0 {
				op.h2 = t.h
			}
			return op
		case x < 92: // update / erase by offset of a row that was read
			t, ok := g.pickTran()
			if !ok || !g.canWrite(t) {
				continue
			}
			g.markWrite(t)
			if r.IntN(2) == 0 {
				return &vfC40Op{kind: "update", h2: t.h, rec: g.record(0)} // the key field is filled in from the row
			}
			return &vfC40Op{kind: "erase", h2: t.h}
		case x < 94:
			t, ok := g.pickTran()
			if !ok {
				continue
			}
			return &vfC40Op{kind: []string{"readcount", "writecount", "asof"}[r.IntN(3)], h2: t.h}
		case x < 97: // run / exec
			if r.IntN(4) == 0 {
				ob := &SuObject{}
				ob.Add(SuStr([]string{"NoSuchFunction", "No.Such", "Object"}[r.IntN(3)]))
				ob.Add(IntVal(r.IntN(10)))
				return &vfC40Op{kind: "exec", val: ob}
			}
			codes := []string{"1 + 2", "'a' $ 'b'", "#(1, 2, a: 3)", "x", "throw 'boom'", "1 / 0", "123456789 * 987654321", "'abc'.Size()",
				"#20200131.123456789", "function () { return 5 }()", "if", "", "#{a: 1}", fmt.Sprintf("%q", vfC40Payload("run", g.id, step, vfC40Size(r, g.big)))}
			return &vfC40Op{kind: "run", s: codes[r.IntN(len(codes))]}
		case x < 98: // schema change on own tables (no transaction of this program open)
			if len(g.trans) > 0 {
				continue
			}
			if g.sview == "" && r.IntN(2) == 0 {
				// a session view: known to this session only, used by later queries and one-shot gets
				g.sview = fmt.Sprintf("sv%d", g.id)
				return &vfC40Op{kind: "admin", s: fmt.Sprintf("sview %s = %s where a >= %d", g.sview, T, r.IntN(3))}
			}
			if !g.droppedB && r.IntN(6) == 0 {
				// a dropped column stays in the stored rows as a placeholder; every field after it must keep its
				// place on both paths (rows of several records - extend, join - are re-packed for the client)
				g.droppedB = true
				return &vfC40Op{kind: "admin", s: "alter " + T + " drop (b)"}
			}
			switch r.IntN(5) {
			case 0:
				if len(g.cols) == 4 {
					g.cols = append(g.cols, "e")
					return &vfC40Op{kind: "admin", s: "alter " + T + " create (e)"}
				}
				return &vfC40Op{kind: "admin", s: "ensure " + T + " (k, a, b, s) key(k) index(b)"}
			case 1:
				return &vfC40Op{kind: "admin", s: "alter " + T + " create index(a, k)"}
			case 2:
				return &vfC40Op{kind: "admin", s: "create " + T + " (x) key(x)"} // exists
			case 3:
				return &vfC40Op{kind: "admin", s: "alter " + T + "_nosuch create (x)"}
			default:
				return &vfC40Op{kind: "admin", s: "alter " + U + " create index(c)"}
			}
		default: // misc
			kinds := []string{"check", "libraries", "libget", "cursors", "sessionid", "kill", "log", "timestamp", "size", "info", "final", "transactions"}
			kd := kinds[r.IntN(len(kinds))]
			op := &vfC40Op{kind: kd}
			switch kd {
			case "libget":
				op.s = []string{"VfThing", "VfBig", "Nope"}[r.IntN(3)]
			case "sessionid":
				op.s = fmt.Sprintf("diff-%d-%d", g.id, step)
			case "kill":
				op.s = "no-such-session"
			case "log":
				op.s = "c40 log line"
			}
			return op
		}
	}
}

func (g *vfC40Gen) someKey() int {
	if len(g.keys) == 0 || g.r.IntN(6) == 0 {
		return g.r.IntN(g.nextKey + 2)
	}
	return g.keys[g.r.IntN(len(g.keys))]
}

func (g *vfC40Gen) pickTran() (vfC40H, bool) {
	if len(g.trans) == 0 {
		return vfC40H{}, false
	}
	return g.trans[g.r.IntN(len(g.trans))], true
}

func (g *vfC40Gen) dropTran(h int) {
	if g.writer == h {
		g.writer = 0
	}
	for i, t := range g.trans {
		if t.h == h {
			g.trans = append(g.trans[:i:i], g.trans[i+1:]...)
			break
		}
	}
	// the server drops the queries of a finished transaction
	kept := g.queries[:0:0]
	for _, q := range g.queries {
		if q.tran != h {
			kept = append(kept, q)
		}
	}
	g.queries = kept
}

func (g *vfC40Gen) dropQC(h int) {
	for i, q := range g.queries {
		if q.h == h {
			g.queries = append(g.queries[:i:i], g.queries[i+1:]...)
			return
		}
	}
	for i, q := range g.cursors {
		if q.h == h {
			g.cursors = append(g.cursors[:i:i], g.cursors[i+1:]...)
			return
		}
	}
}

// ---------------------------------------------------------------------------------------

type vfC40Env struct {
	db1, db2       *db19.Database
	local1, local2 *DbmsLocal
	client         *dbmsClient
	frag           *vfC40Frag
}

func vfC40NewDb() (*db19.Database, *DbmsLocal) {
	db := db19.CreateDb(stor.HeapStor(4 * 1024 * 1024))
	db19.MaxAge = 1 << 30 // the 20 s transaction age limit is wall-clock: on a loaded machine one side would hit it and the other not
	db19.StartConcur(db, 300*time.Millisecond)
	local := NewDbmsLocal(db)
	local.Admin("create stdlib (name, group, text) key(name, group)", nil)
	t := local.Transaction(true)
	th := &Thread{}
	t.Action(th, "insert { name: 'VfThing', group: -1, text: 'function () { 123 }' } into stdlib")
	q := t.Query("stdlib", nil)
	var rb RecordBuilder
	rb.Add(SuStr("VfBig")).Add(IntVal(-1)).Add(SuStr("/*" + vfC40Payload("lib", 1, 1, 150000) + "*/ function () { }"))
	q.Output(th, rb.Build())
	if r := t.Complete(); r != "" {
		panic(r)
	}
	return db, local
}

var vfC40Fatals atomic.Int64
var vfC40LastFatal atomic.Value

type vfC40LogWriter struct{}

func (vfC40LogWriter) Write(p []byte) (int, error) {
	if os.Getenv("VERIF_C40_DEBUG") != "" && strings.Contains(string(p), "closing session") {
		os.Stdout.WriteString("LOG " + vk.Trunc(string(p), 300) + "\n")
	}
	if strings.Contains(string(p), "FATAL") {
		vfC40LastFatal.Store(vk.Trunc(string(p), 300))
		os.Stdout.WriteString("LOG " + vk.Trunc(string(p), 2000) + "\n") // log.Fatal exits the process: keep the reason
	}
	return len(p), nil
}

func vfC40Setup() *vfC40Env {
	options.BuiltDate = "Dec 29 2020 12:34"
	options.Action = "server" // mux.limit panics instead of exiting, DbmsLocal.Kill works
	log.SetFlags(0)
	log.SetOutput(vfC40LogWriter{})
	if devnull, err := os.OpenFile(os.DevNull, os.O_WRONLY, 0); err == nil {
		vfC40RealStderr = os.Stderr // keep it reachable: its finalizer would close fd 2
		os.Stderr = devnull // dbg.PrintStack writes there; runtime crash output still goes to fd 2
	}
	Exit = func(int) { // core.Fatal: a real process would exit; here: record it and end the goroutine
		vfC40Fatals.Add(1)
		runtime.Goexit()
	}
	env := &vfC40Env{}
	env.db1, env.local1 = vfC40NewDb()
	env.db2, env.local2 = vfC40NewDb()
	GetDbms = func() IDbms { return env.local1 }
	DbmsAuth = true
	workers = mux.NewWorkers(doRequest)
	cert, err := tls.X509KeyPair(ServerCert, ServerKey)
	if err != nil {
		panic(err)
	}
	var tc *tls.Conn
	for try := 0; ; try++ { // the hello exchange has a 500 ms deadline; a loaded machine can miss it
		p1, p2 := net.Pipe()
		go newServerConn(env.local1, p1, &tls.Config{Certificates: []tls.Certificate{cert}})
		e := checkHello(p2)
		if e == "" {
			p2.Write(hello())
			tc = tls.Client(p2, &tls.Config{InsecureSkipVerify: true})
			if err := tc.Handshake(); err == nil {
				break
			} else {
				e = err.Error()
			}
		}
		p2.Close()
		if try > 50 {
			panic("C40 harness: cannot connect: " + e)
		}
	}
	env.frag = &vfC40Frag{c: tc, rr: vk.Rand(4001), wr: vk.Rand(4002)}
	env.client = NewDbmsClient(env.frag)
	return env
}

// tables returns the rows of the program's tables read locally
func vfC40Dump(local *DbmsLocal, tables ...string) string {
	th := &Thread{}
	t := local.Transaction(false)
	defer t.Complete()
	var out []string
	for _, tbl := range tables {
		p, _ := vk.Catch(func() {
			q := t.Query(tbl, nil)
			hdr := q.Header()
			cols := append([]string(nil), hdr.Columns...)
			sort.Strings(cols)
			for {
				row, _ := q.Get(th, Next)
				if row == nil {
					break
				}
				var sb strings.Builder
				sb.WriteString(tbl)
				for _, c := range cols {
					raw := row.GetRaw(hdr, c)
					fmt.Fprintf(&sb, " %s=%d:%x", c, len(raw), vk.Hash64(raw))
				}
				out = append(out, sb.String())
			}
			for _, sys := range []string{"columns", "indexes"} {
				q := t.Query(sys+" where table = '"+tbl+"'", nil)
				hdr := q.Header()
				for {
					row, _ := q.Get(th, Next)
					if row == nil {
						break
					}
					s := sys
					for _, c := range hdr.Columns {
						s += fmt.Sprintf(" %s=%q", c, row.GetRaw(hdr, c))
					}
					out = append(out, s)
				}
			}
		})
		if p != nil {
			out = append(out, tbl+" ERR "+vfC40ErrStr(p))
		}
	}
	sort.Strings(out)
	return strings.Join(out, "\n")
}

var vfC40RealStderr *os.File

func TestVerifC40(t *testing.T) {
	rep := vk.NewReport("C40",
		"A: a case is one generated request program of 60-140 ops (admin, transactions incl. overlapping ones, actions, queries, cursors, get-one, "+
			"output/update/erase by offset, header/keys/order/strategy, run/exec, misc) executed op by op through a mux session and on a local DbmsLocal "+
			"over an identically built database; non-trivial = >= 30 ops compared of which >= 5 returned rows and >= 1 returned an error; distinct by the op list. "+
			"B/C: a case is one echo request (session, sequence number, size) on a connection shared by all sessions; non-trivial = payload >= 1 byte; "+
			"sizes concentrate on 0, the 9-byte header, the 4 KiB write buffer, the 16 KiB TLS record and the 1 MiB message limit",
		"row order of queries without sort, strategy strings, offsets, transaction numbers, sizes and timestamps are not compared (legal differences between two databases)",
		"messages of 1 MiB or more are outside the protocol and are not generated",
		"trusted: the local execution on DbmsLocal as the reference for A; the payload generator for B/C")
	defer rep.Finish()
	env := vfC40Setup()

	var abort atomic.Bool // a violation was seen: stop collecting (replies may never come)
	violate := func(class, key string, detail any) {
		rep.Violate(class, key, detail)
		abort.Store(true)
	}
	var wg sync.WaitGroup
	var progress atomic.Int64

	parts := os.Getenv("VERIF_C40_PARTS") // development aid: e.g. "A", "BC"; empty = all
	if parts == "" {
		parts = "ABC"
	}
	// ---------------- B: echo sessions on the shared dbms connection
	nsess := 6
	if vk.Thorough() {
		nsess = 16
	}
	nreq := vk.N(2400, 120000) / nsess
	bigEvery := 40
	if !strings.Contains(parts, "B") {
		nsess = 0
	}
	for s := 0; s < nsess; s++ {
		wg.Add(1)
		go func(s int) {
			defer wg.Done()
			r := vk.Rand(uint64(4100 + s))
			ms := env.client.NewSession()
			th := NewThread(nil)
			sessName := vk.Shard()*1000 + s
			for q := 0; q < nreq && !abort.Load(); q++ {
				big := q%bigEvery == bigEvery-1
				size := vfC40Size(r, big)
				kind := "sid"
				if r.IntN(3) == 0 {
					kind = "run"
				}
				if size == 0 && kind == "sid" {
					size = 1 // SessionId("") is a read, not an echo
				}
				want := vfC40Payload(kind, sessName, q, size)
				rep.Case("echo %s session %d seq %d size %d", kind, sessName, q, size)
				var got string
				p, _ := vk.Catch(func() {
					if kind == "sid" {
						got = ms.SessionId(th, want)
					} else {
						v := ms.Run(th, `"`+want+`"`)
						if v == nil {
							got = "<nil>"
						} else if ss, ok := v.(SuStr); ok {
							got = string(ss)
						} else {
							got = "<" + v.Type().String() + "> " + v.String()
						}
					}
				})
				rep.Eval(vk.Hash64("echo", kind, sessName, q, size), size > 0)
				progress.Add(1)
				rep.Count("echo_requests", 1)
				rep.Count("echo_bytes", size)
				if size >= 4087 {
					rep.Count("echo_multi_fragment", 1)
				}
				if size > 900000 {
					rep.Count("echo_near_limit", 1)
				}
				key := fmt.Sprintf("%s session %d seq %d size %d", kind, sessName, q, size)
				if p != nil {
					violate("C40/echo-failed/"+kind, key, map[string]any{"error": vk.Trunc(vfC40ErrStr(p), 300)})
				} else if got != want {
					cl := "C40/wrong-reply/" + kind
					if strings.HasPrefix(got, "sid.s") || strings.HasPrefix(got, "run.s") {
						if !strings.HasPrefix(got, fmt.Sprintf("%s.s%d.q%d.", kind, sessName, q)) {
							cl = "C40/reply-of-other-request/" + kind
						} else {
							cl = "C40/reply-incomplete/" + kind
						}
					}
					violate(cl, key, vfC40DescribeDiff(got, want))
				}
			}
		}(s)
	}

	// ---------------- A: differential programs, one after the other, on their own session
	nprog := vk.N(200, 8000)
	if !strings.Contains(parts, "A") {
		nprog = 0
	}
	wg.Add(1)
	go func() {
		defer wg.Done()
		remote := vfC40NewSide("client-server", env.client.NewSession())
		local := vfC40NewSide("local", env.local2)
		pi0 := 0
		fmt.Sscan(os.Getenv("VERIF_C40_FIRST_PROGRAM"), &pi0) // development aid
		for pi := pi0; pi < nprog && !abort.Load(); pi++ {
			r := vk.RandFor(40, pi)
			id := vk.Shard()*1000000 + pi
			g := &vfC40Gen{r: r, id: id, T: fmt.Sprintf("t%d", id), U: fmt.Sprintf("u%d", id), cols: []string{"k", "a", "b", "s"}, big: pi%10 == 9}
			steps := 60 + r.IntN(81)
			var hist []string
			var opHash []any
			compared, rowsSeen, errsSeen := 0, 0, 0
			doomed := map[int]bool{}
			failed := false
			rep.Case("program %d", pi)
			remote.reset()
			local.reset()
			for step := 0; ; step++ {
				op := g.next(step, steps)
				if op == nil {
					break
				}
				ops := op.String()
				opHash = append(opHash, ops)
				tranH := g.opTran(op)
				rr := remote.exec(op)
				rl := local.exec(op)
				g.feedback(op, rl)
				progress.Add(1)
				rep.Count("ops_"+op.kind, 1)
				same := rr == rl
				if op.nocmp {
					same = strings.HasPrefix(rr, "ERR") == strings.HasPrefix(rl, "ERR")
				}
				// A transaction that lost a conflict: the checker works asynchronously, so the request
				// at which the failure surfaces is timing dependent. From the first sign on only the
				// outcome of the transaction (commit refused on both sides) is compared.
				// ReadCount answers -1 for a transaction that has failed: the same sign without an error text
				failedCount := op.kind == "readcount" && (rr == "n=-1" || rl == "n=-1")
				if tranH != 0 && (vfC40IsConflict(rr) || vfC40IsConflict(rl) || failedCount) && op.kind != "complete" {
					if !doomed[tranH] {
						rep.Count("transactions_failed_by_conflict", 1)
					}
					doomed[tranH] = true
				}
				if tranH != 0 && doomed[tranH] && op.kind != "complete" {
					rep.Count("ops_on_failed_transaction", 1)
					if op.kind == "cget" {
						// the cursor outlives the transaction: it may have moved on one side only, also when both sides
						// answer with the same error (the get can succeed inside before the failure surfaces). Give it up.
						g.dropQC(op.h)
						cl := &vfC40Op{kind: "close", h: op.h}
						remote.exec(cl)
						local.exec(cl)
						rep.Count("cursors_given_up_after_failed_transaction", 1)
					}
					same = true
				}
				outcomeDiffers := false
				if op.kind == "complete" {
					okR, okL := rr == "complete: ", rl == "complete: "
					// the outcome each side reports must agree with what is in its database
					if op.marker != 0 && !strings.HasPrefix(rr, "ERR") && !strings.HasPrefix(rl, "ERR") {
						inR, inL := vfC40HasRow(env.local1, g.U, op.marker), vfC40HasRow(env.local2, g.U, op.marker)
						rep.Count("commit_outcome_vs_database_checks", 1)
						if inR != okR {
							rep.Violate("C40/commit-outcome-untrue/client-server", ops, map[string]any{"reported": rr, "marker_row_in_database": inR,
								"program": pi, "history": append([]string(nil), hist[max(0, len(hist)-20):]...)})
						}
						if inL != okL {
							rep.Violate("C40/commit-outcome-untrue/local", ops, map[string]any{"reported": rl, "marker_row_in_database": inL, "program": pi})
						}
					}
					if !okR || !okL {
						rep.Count("commit_failures_seen", 1)
					}
					if vfC40IsConflict(rr) || vfC40IsConflict(rl) {
						// db19 decides conflicts on an asynchronous priority queue: which transaction loses,
						// and even whether a read/write pair overlaps, is timing dependent. Texts are not compared.
						same = true
						if okR != okL {
							outcomeDiffers = true
						}
					}
				}
				hist = append(hist, ops+"  =>  "+vk.Trunc(rr, 200))
				if os.Getenv("VERIF_C40_DEBUG") != "" {
					fmt.Printf("P%d %s => %s\n", pi, ops, vk.Trunc(rr, 100))
				}
				compared++
				if strings.HasPrefix(rl, "row[") || strings.HasPrefix(rl, "scan ") && !strings.HasPrefix(rl, "scan 0 ") {
					rowsSeen++
					rep.Count("results_with_rows", 1)
				}
				if strings.HasPrefix(rl, "ERR") {
					errsSeen++
					rep.Count("results_errors", 1)
					rep.Seen("error_kinds", op.kind+": "+vk.Trunc(vfC40Digits(rl), 60))
				}
				if strings.HasPrefix(rl, "complete: ") && rl != "complete: " {
					rep.Count("commit_failures", 1)
				}
				if outcomeDiffers {
					// legal nondeterminism of conflict detection: the two databases now differ, give the program up
					rep.Count("programs_abandoned_conflict_outcome", 1)
					failed = true
					break
				}
				if same {
					continue
				}
				cls := "C40/result-differs/" + op.kind
				if strings.HasPrefix(rr, "ERR") != strings.HasPrefix(rl, "ERR") {
					cls = "C40/error-differs/" + op.kind
				} else if strings.HasPrefix(rr, "ERR") {
					cls = "C40/error-text-differs/" + op.kind
				}
				if len(hist) > 25 {
					hist = hist[len(hist)-25:]
				}
				strat := map[string]string{}
				if op.kind == "get" || op.kind == "cget" || op.kind == "scan" {
					for _, sd := range []*vfC40Side{remote, local} {
						vk.Catch(func() { strat[sd.name] = sd.qc(op.h).Strategy(false) })
					}
				}
				rep.Violate(cls, ops, map[string]any{"client_server": vk.Trunc(rr, 1200), "local": vk.Trunc(rl, 1200), "program": pi, "strategies": strat,
					"shard": vk.Shard(), "seed": vk.Seed(), "step": step, "history": append([]string(nil), hist...)})
				switch op.kind {
				case "readcount", "writecount", "cursors":
					// value-only difference: the program can go on
				default:
					failed = true
				}
				if failed {
					break
				}
			}
			rep.Eval(vk.Hash64(opHash...), compared >= 30 && rowsSeen >= 5 && errsSeen >= 1)
			rep.Count("programs", 1)
			if failed {
				// the two sides may have diverged: start over with fresh sessions
				rep.Count("programs_abandoned", 1)
				for _, tr := range local.trans {
					vk.Catch(func() { tr.Abort() })
				}
				for _, tr := range remote.trans {
					vk.Catch(func() { tr.Abort() })
				}
				remote = vfC40NewSide("client-server", env.client.NewSession())
				local = vfC40NewSide("local", env.local2)
				continue
			}
			d1, d2 := vfC40Dump(env.local1, g.T, g.U), vfC40Dump(env.local2, g.T, g.U)
			if d1 != d2 {
				rep.Violate("C40/database-differs-after-program", fmt.Sprintf("program %d", pi),
					map[string]any{"client_server_db": vk.Trunc(d1, 1500), "local_db": vk.Trunc(d2, 1500), "history": hist[max(0, len(hist)-25):]})
			} else {
				rep.Count("final_database_comparisons_equal", 1)
			}
			if rep.WantSample() {
				rep.Sample(map[string]any{"program": pi, "first_ops": hist[:min(len(hist), 12)]})
			}
			// drop the tables on both sides to keep the databases small
			for _, tbl := range []string{g.T, g.U} {
				o := &vfC40Op{kind: "admin", s: "drop " + tbl}
				if a, b := remote.exec(o), local.exec(o); a != b {
					rep.Violate("C40/result-differs/admin", o.String(), map[string]any{"client_server": a, "local": b})
				}
			}
		}
	}()

	// ---------------- C: dbms/mux alone, fragmented in both directions
	wg.Add(1)
	go func() {
		defer wg.Done()
		if strings.Contains(parts, "C") {
			vfC40MuxEcho(rep, &abort, violate, &progress)
		}
	}()

	done := make(chan struct{})
	go func() { wg.Wait(); close(done) }()
	for waiting := true; waiting; {
		select {
		case <-done:
			waiting = false
		case <-time.After(3 * time.Second):
			if abort.Load() { // a violation is recorded; the remaining sessions may wait for replies that never come
				rep.Count("aborted_after_violation", 1)
				waiting = false
			}
		}
	}
	rep.Count("frag_reads", int(env.frag.nreads.Load()))
	rep.Count("frag_short_reads", int(env.frag.nshort.Load()))
	rep.Count("frag_writes", int(env.frag.nwrites.Load()))
	rep.Count("frag_write_fragments", int(env.frag.nfrags.Load()))
	if n := vfC40Fatals.Load(); n > 0 {
		last, _ := vfC40LastFatal.Load().(string)
		rep.Violate("C40/fatal-called", vk.Trunc(vfC40Digits(last), 120), map[string]any{"count": n, "last": last,
			"what": "core.Fatal was called (a real client or server process exits); no connection was closed by the monitor"})
	}
}

// vfC40HasRow reads table tbl of a database locally
func vfC40HasRow(local *DbmsLocal, tbl string, k int) bool {
	found := false
	vk.Catch(func() {
		t := local.Transaction(false)
		defer t.Complete()
		ob := &SuObject{}
		ob.Add(SuStr(tbl))
		ob.Set(SuStr("k"), IntVal(k))
		row, _, _ := t.Get(&Thread{}, ob, Only)
		found = row != nil
	})
	return found
}

func vfC40IsConflict(res string) bool {
	return strings.Contains(res, "conflicted with") || strings.Contains(res, "transaction aborted") ||
		strings.Contains(res, "transaction already ended") ||
		strings.Contains(res, "exceeded max age") // 20 s of real time: only on a badly overloaded machine
}

func vfC40Digits(s string) string {
	var sb strings.Builder
	prev := false
	for _, c := range s {
		if c >= '0' && c <= '9' {
			if !prev {
				sb.WriteByte('N')
			}
			prev = true
		} else {
			sb.WriteRune(c)
			prev = false
		}
	}
	return sb.String()
}

// vfC40MuxEcho: sessions of one mux.ClientConn echo through a mux.ServerConn + Workers.
func vfC40MuxEcho(rep *vk.Report, abort *atomic.Bool, violate func(string, string, any), progress *atomic.Int64) {
	p1, p2 := net.Pipe()
	cf := &vfC40Frag{c: p1, rr: vk.Rand(4011), wr: vk.Rand(4012)}
	sf := &vfC40Frag{c: p2, rr: vk.Rand(4013), wr: vk.Rand(4014)}
	ws := mux.NewWorkers(func(wb *mux.WriteBuf, _ *Thread, id uint64, data []byte) {
		if data == nil {
			return
		}
		// reply: true, then the data in pieces whose sizes depend on the content length
		wb.PutBool(true)
		n := len(data)
		x := uint32(n)*2654435761 + 12345
		for len(data) > 0 {
			x = x*1664525 + 1013904223
			k := len(data)
			switch (x >> 16) % 5 {
			case 0:
				k = min(k, 1+int((x>>8)%64))
			case 1:
				k = min(k, 1+int((x>>8)%5000))
			case 2:
				k = min(k, 4096)
			}
			if (x>>4)&1 == 0 {
				wb.Write(data[:k])
			} else {
				wb.WriteString(string(data[:k]))
			}
			data = data[k:]
		}
		wb.EndMsg()
	})
	msc := mux.NewServerConn(sf)
	go msc.Run(ws.Submit)
	cc := mux.NewClientConn(cf)
	nsess := 5
	if vk.Thorough() {
		nsess = 12
	}
	nreq := vk.N(2400, 120000) / nsess
	var wg sync.WaitGroup
	for s := 0; s < nsess; s++ {
		wg.Add(1)
		go func(s int) {
			defer wg.Done()
			r := vk.Rand(uint64(4200 + s))
			cs := cc.NewClientSession()
			sessName := vk.Shard()*1000 + s
			for q := 0; q < nreq && !abort.Load(); q++ {
				size := vfC40Size(r, q%50 == 49)
				if size < 1 {
					size = 1 // an empty mux message is never sent by the dbms client (there is always a command byte)
				}
				if size > 1048570 {
					size = 1048570
				}
				want := vfC40Payload("mux", sessName, q, size)
				rep.Case("mux echo session %d seq %d size %d", sessName, q, size)
				var got string
				p, _ := vk.Catch(func() {
					cs.ResetWrite()
					rest := want
					for len(rest) > 0 {
						k := len(rest)
						if r.IntN(3) > 0 {
							k = 1 + r.IntN(min(k, []int{16, 4200, 100000}[r.IntN(3)]))
						}
						if r.IntN(2) == 0 {
							cs.WriteString(rest[:k])
						} else {
							cs.Write([]byte(rest[:k]))
						}
						rest = rest[k:]
					}
					cs.Request()
					got = cs.GetN(cs.Remaining())
				})
				rep.Eval(vk.Hash64("mux", sessName, q, size), true)
				rep.Count("mux_echo_requests", 1)
				rep.Count("mux_echo_bytes", size)
				progress.Add(1)
				if size >= 4087 {
					rep.Count("mux_echo_multi_fragment", 1)
				}
				if size > 900000 {
					rep.Count("mux_echo_near_limit", 1)
				}
				key := fmt.Sprintf("mux session %d seq %d size %d", sessName, q, size)
				if p != nil {
					violate("C40/echo-failed/mux", key, map[string]any{"error": vk.Trunc(vfC40ErrStr(p), 300)})
				} else if got != want {
					cl := "C40/wrong-reply/mux"
					if strings.HasPrefix(got, "mux.s") {
						if !strings.HasPrefix(got, fmt.Sprintf("mux.s%d.q%d.", sessName, q)) {
							cl = "C40/reply-of-other-request/mux"
						} else {
							cl = "C40/reply-incomplete/mux"
						}
					}
					violate(cl, key, vfC40DescribeDiff(got, want))
				}
			}
		}(s)
	}
	wg.Wait()
	rep.Count("mux_frag_short_reads", int(cf.nshort.Load()+sf.nshort.Load()))
	rep.Count("mux_frag_write_fragments", int(cf.nfrags.Load()+sf.nfrags.Load()))
}
