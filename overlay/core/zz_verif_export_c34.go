//go:build verif

// Accessors for the C34 monitor (/verif). No behaviour change, no call sites in the package.
//
// The client side batching state of Thread.Timestamp (tsCount, tsLimit, tsLast) is
// process-global ("not per thread"): one gSuneido client process has one such state.
// To run N clients in one process the monitor swaps the state of "virtual clients"
// in and out of these variables.

package core

// VerifTsState is a copy of the client batching state.
type VerifTsState struct {
	Count, Limit int
	Last         SuDate
}

// VerifTsSwap installs s as the client batching state and returns the state it replaces.
func VerifTsSwap(s VerifTsState) VerifTsState {
	tsLock.Lock()
	defer tsLock.Unlock()
	prev := VerifTsState{Count: tsCount, Limit: tsLimit, Last: tsLast}
	tsCount, tsLimit, tsLast = s.Count, s.Limit, s.Last
	return prev
}

// VerifTsPeek returns the current client batching state.
func VerifTsPeek() VerifTsState {
	tsLock.Lock()
	defer tsLock.Unlock()
	return VerifTsState{Count: tsCount, Limit: tsLimit, Last: tsLast}
}

// VerifTimestampParts splits a value returned by Thread.Timestamp.
func VerifTimestampParts(v Value) (d SuDate, extra uint8, ok bool) {
	switch t := v.(type) {
	case SuTimestamp:
		return t.SuDate, t.extra, true
	case SuDate:
		return t, 0, true
	}
	return SuDate{}, 0, false
}
