module verif/hq

go 1.26.5

require (
	github.com/anishathalye/porcupine v1.3.0
	github.com/apmckinlay/gsuneido v0.0.0
)

replace github.com/apmckinlay/gsuneido => /repo
