// C17 Checker message queue preserves per-transaction order.
//
// Black-box monitor of util/queue.PriorityQueue (the queue between the transaction goroutines and the db19
// conflict checker). Many short concurrent histories (1-8 producers, one consumer, race build) are recorded with
// call/return stamps from one atomic logical clock and judged offline by
//
//	(a) porcupine: linearizability against the sequential specification written from the statement
//	    (arrival list, capacity 8; Put legal iff not full; Get legal iff the returned message is the oldest of
//	    its transaction and no oldest-of-its-transaction message has a higher priority; ties left open), and
//	(b) independent linear-time checks that do not use porcupine: exactly once, per-transaction FIFO for
//	    messages whose sends are ordered in real time, the definite-presence priority rule, definite occupancy.
//
// This file lives in the separate module /verif/hq because porcupine is not a dependency of the repository.
package hq

import (
	"fmt"
	"math/rand/v2"
	"runtime"
	"sort"
	"strings"
	"sync"
	"sync/atomic"
	"testing"
	"time"

	"github.com/anishathalye/porcupine"
	"github.com/apmckinlay/gsuneido/util/queue"
	vk "github.com/apmckinlay/gsuneido/util/verifkit"
)

const vfCap = 8 // documented capacity (bufSize) of the checker queue

type vfMsg struct {
	id, prio, tran int
}

type vfOp struct {
	client    int
	put       bool
	msg       vfMsg // put: the message sent
	got       int   // get: id returned (-999 = not an int)
	call, ret int64
}

func (o vfOp) String() string {
	if o.put {
		return fmt.Sprintf("c%d Put(prio=%d,tran=%d,id=%d) [%d,%d]", o.client, o.msg.prio, o.msg.tran, o.msg.id, o.call, o.ret)
	}
	return fmt.Sprintf("c%d Get()=%d [%d,%d]", o.client, o.got, o.call, o.ret)
}

const (
	vfSentinelID   = -1
	vfSentinelTran = 1000
	vfSentinelPrio = -1
)

// ---------------------------------------------------------------- sequential specification (porcupine)

type vfSpec struct {
	capacity    int  // 0 = unbounded
	priority    bool // enforce "highest priority among the oldest of each transaction"
	oldest      bool // enforce "oldest of its transaction"
	description string
}

type vfPutIn struct{ m vfMsg }
type vfGetIn struct{}

func vfModel(sp vfSpec) porcupine.Model {
	return porcupine.Model{
		Init: func() any { return []vfMsg(nil) },
		Step: func(state, input, output any) (bool, any) {
			st := state.([]vfMsg)
			switch in := input.(type) {
			case vfPutIn:
				if sp.capacity > 0 && len(st) >= sp.capacity {
					return false, st
				}
				ns := make([]vfMsg, len(st)+1)
				copy(ns, st)
				ns[len(st)] = in.m
				return true, ns
			case vfGetIn:
				id := output.(int)
				at := -1
				for i, m := range st {
					if m.id == id {
						at = i
						break
					}
				}
				if at < 0 {
					return false, st
				}
				x := st[at]
				for i, m := range st {
					// m is the oldest of its transaction iff no earlier entry has its transaction
					first := true
					for j := 0; j < i; j++ {
						if st[j].tran == m.tran {
							first = false
							break
						}
					}
					if sp.oldest && i < at && m.tran == x.tran {
						return false, st // an older message of the same transaction is still queued
					}
					if sp.priority && first && m.prio > x.prio {
						return false, st // a transaction's oldest message with higher priority is queued
					}
				}
				ns := make([]vfMsg, 0, len(st)-1)
				ns = append(ns, st[:at]...)
				ns = append(ns, st[at+1:]...)
				return true, ns
			}
			return false, st
		},
		Equal: func(a, b any) bool {
			x, y := a.([]vfMsg), b.([]vfMsg)
			if len(x) != len(y) {
				return false
			}
			for i := range x {
				if x[i] != y[i] {
					return false
				}
			}
			return true
		},
		Hash: func(a any) uint64 {
			h := uint64(1469598103934665603)
			for _, m := range a.([]vfMsg) {
				h = (h ^ uint64(uint32(m.id))) * 1099511628211
			}
			return h
		},
	}
}

var vfSpecs = []vfSpec{
	{vfCap, true, true, ""},
	{0, true, true, "capacity"},     // legal without the bound => only the bound is broken
	{0, false, true, "priority"},    // legal without the priority rule
	{0, false, false, "tran-order"}, // legal as a bag => per transaction order broken
}

// ---------------------------------------------------------------- workload

type vfPlan struct {
	nprod    int
	msgs     [][]vfMsg // per producer
	total    int
	prodMode []int // 0 burst, 1 yield between puts, 2 wait until the queue has drained before some puts
	consMode int   // 0 fast, 1 slow (waits for a fill level before each get), 2 mixed
	fill     int
	procs    int
	pattern  string
}

func vfGenPlan(r *rand.Rand) vfPlan {
	var p vfPlan
	p.nprod = 1 + r.IntN(8)
	p.total = 4 + r.IntN(26) // <= 29 puts => <= 60 operations with the sentinel
	if p.total < p.nprod {
		p.total = p.nprod
	}
	p.msgs = make([][]vfMsg, p.nprod)
	p.prodMode = make([]int, p.nprod)
	for i := range p.prodMode {
		p.prodMode[i] = r.IntN(3)
	}
	p.consMode = r.IntN(3)
	p.fill = 1 + r.IntN(vfCap)
	if r.IntN(3) == 0 {
		p.fill = vfCap
	}
	ntran := 1 + r.IntN(5)
	id := 0
	switch r.IntN(4) {
	case 0: // anything goes: transactions shared between producers, random priorities
		p.pattern = "random"
		for n := 0; n < p.total; n++ {
			pr := r.IntN(p.nprod)
			p.msgs[pr] = append(p.msgs[pr], vfMsg{id, r.IntN(4), r.IntN(ntran)})
			id++
		}
	case 1: // the checker's use: a transaction is driven by one goroutine: reads/writes (2), counts (1), then commit/abort (3);
		// transaction 0 carries admin messages of any priority from anybody
		p.pattern = "checker"
		left := p.total
		for left > 0 {
			pr := r.IntN(p.nprod)
			if r.IntN(5) == 0 {
				p.msgs[pr] = append(p.msgs[pr], vfMsg{id, 1 + r.IntN(3), 0})
				id++
				left--
				continue
			}
			tran := 1 + pr*4 + r.IntN(4)
			k := 1 + r.IntN(4)
			for j := 0; j < k && left > 1; j++ {
				pri := 2
				if r.IntN(6) == 0 {
					pri = 1
				}
				p.msgs[pr] = append(p.msgs[pr], vfMsg{id, pri, tran})
				id++
				left--
			}
			p.msgs[pr] = append(p.msgs[pr], vfMsg{id, 3, tran})
			id++
			left--
		}
	case 2: // rising priorities inside each transaction (the order rule must win over the priority rule)
		p.pattern = "rising"
		cnt := map[int]int{}
		for n := 0; n < p.total; n++ {
			pr := r.IntN(p.nprod)
			tran := pr*8 + r.IntN(ntran) // owned by one producer
			pri := cnt[tran]
			if pri > 3 {
				pri = r.IntN(4)
			}
			cnt[tran]++
			p.msgs[pr] = append(p.msgs[pr], vfMsg{id, pri, tran})
			id++
		}
	default: // few transactions, owned, random priorities
		p.pattern = "owned"
		for n := 0; n < p.total; n++ {
			pr := r.IntN(p.nprod)
			p.msgs[pr] = append(p.msgs[pr], vfMsg{id, r.IntN(4), pr*8 + r.IntN(ntran)})
			id++
		}
	}
	return p
}

// vfSpin yields until cond holds or the (logical, not wall-clock) budget is spent.
func vfSpin(budget int, cond func() bool) bool {
	for i := 0; i < budget; i++ {
		if cond() {
			return true
		}
		runtime.Gosched()
	}
	return cond()
}

// vfRun executes one plan against a fresh real queue and returns the recorded history.
func vfRun(p vfPlan, r *rand.Rand, rep *vk.Report) []vfOp {
	pq := queue.NewPriorityQueue()
	var clock atomic.Int64
	var putsReturned, getsReturned atomic.Int64
	var prodDone atomic.Bool
	hist := make([][]vfOp, p.nprod+2)
	start := make(chan struct{})
	var wg sync.WaitGroup
	seeds := make([]uint64, p.nprod+1)
	for i := range seeds {
		seeds[i] = r.Uint64()
	}
	for pr := 0; pr < p.nprod; pr++ {
		wg.Add(1)
		go func(pr int) {
			defer wg.Done()
			lr := rand.New(rand.NewPCG(seeds[pr], 17))
			<-start
			for _, m := range p.msgs[pr] {
				switch p.prodMode[pr] {
				case 1:
					for k := lr.IntN(4); k > 0; k-- {
						runtime.Gosched()
					}
				case 2:
					if p.consMode != 1 && lr.IntN(3) == 0 { // let the consumer drain the queue (it then waits on an empty queue)
						if !vfSpin(1000, func() bool { return getsReturned.Load() >= putsReturned.Load() }) {
							rep.Count("gate_giveup_drain", 1)
						}
					}
				}
				o := vfOp{client: pr, put: true, msg: m}
				o.call = clock.Add(1)
				pq.Put(m.prio, m.tran, m.id)
				o.ret = clock.Add(1)
				putsReturned.Add(1)
				hist[pr] = append(hist[pr], o)
			}
		}(pr)
	}
	done := make(chan struct{})
	go func() { // the single consumer
		defer close(done)
		lr := rand.New(rand.NewPCG(seeds[p.nprod], 18))
		cl := p.nprod
		limit := 2*p.total + 6
		for n := 0; n < limit; n++ {
			slow := p.consMode == 1 || (p.consMode == 2 && lr.IntN(2) == 0)
			if slow {
				fill := int64(p.fill)
				ok := vfSpin(3000, func() bool {
					pr := putsReturned.Load()
					return prodDone.Load() || pr >= int64(p.total) || pr-getsReturned.Load() >= fill
				})
				if !ok {
					rep.Count("gate_giveup_fill", 1)
				} else if p.fill == vfCap {
					for k := lr.IntN(40); k > 0; k-- { // room for an over-capacity Put to return
						runtime.Gosched()
					}
				}
			}
			o := vfOp{client: cl}
			o.call = clock.Add(1)
			v := pq.Get()
			o.ret = clock.Add(1)
			getsReturned.Add(1)
			if id, ok := v.(int); ok {
				o.got = id
			} else {
				o.got = -999
			}
			hist[cl] = append(hist[cl], o)
			if o.got == vfSentinelID {
				return
			}
		}
	}()
	close(start)
	wg.Wait()
	prodDone.Store(true)
	// every real Put has returned: a lowest-priority sentinel of its own transaction can only be delivered
	// when no real message is left, so the consumer stops without a timeout even if messages were lost.
	o := vfOp{client: p.nprod + 1, put: true, msg: vfMsg{vfSentinelID, vfSentinelPrio, vfSentinelTran}}
	o.call = clock.Add(1)
	pq.Put(vfSentinelPrio, vfSentinelTran, vfSentinelID)
	o.ret = clock.Add(1)
	hist[p.nprod+1] = append(hist[p.nprod+1], o)
	<-done
	var all []vfOp
	for _, h := range hist {
		all = append(all, h...)
	}
	sort.Slice(all, func(i, j int) bool { return all[i].call < all[j].call })
	return all
}

// ---------------------------------------------------------------- oracles

type vfVerdict struct {
	class, why string
}

// vfLinear are the checks that do not use porcupine. They only use facts that are certain from the stamps:
// "A returned before B was called".
func vfLinear(all []vfOp, rep *vk.Report) (out []vfVerdict, stats map[string]int) {
	stats = map[string]int{}
	puts := map[int]vfOp{}
	var gets []vfOp
	for _, o := range all {
		if o.put {
			puts[o.msg.id] = o
		} else {
			gets = append(gets, o)
		}
	}
	// the consumer is one goroutine, so gets are already totally ordered
	deliveredAt := map[int]int{}
	exact := true
	for k, g := range gets {
		pu, sent := puts[g.got]
		switch {
		case !sent:
			out = append(out, vfVerdict{"C17/phantom-delivery", fmt.Sprintf("get #%d returned %d which was never sent", k, g.got)})
			exact = false
			continue
		case g.ret < pu.call:
			out = append(out, vfVerdict{"C17/delivered-before-sent", fmt.Sprintf("id %d", g.got)})
			exact = false
		}
		if prev, dup := deliveredAt[g.got]; dup {
			out = append(out, vfVerdict{"C17/duplicate-delivery", fmt.Sprintf("id %d delivered by get #%d and #%d", g.got, prev, k)})
			exact = false
			continue
		}
		deliveredAt[g.got] = k
	}
	for id := range puts {
		if _, ok := deliveredAt[id]; !ok {
			// the sentinel (lowest priority, sent after every Put returned) overtook it, or it vanished
			out = append(out, vfVerdict{"C17/lost-message", fmt.Sprintf("id %d (prio %d tran %d) sent, never delivered", id, puts[id].msg.prio, puts[id].msg.tran)})
			exact = false
		}
	}
	if !exact {
		return out, stats
	}
	// per-transaction order
	byTran := map[int][]vfOp{}
	for _, o := range all {
		if o.put {
			byTran[o.msg.tran] = append(byTran[o.msg.tran], o)
		}
	}
	for _, l := range byTran {
		for _, a := range l {
			for _, b := range l {
				if a.ret < b.call { // a definitely sent before b
					stats["ordered_same_tran_pairs"]++
					if deliveredAt[b.msg.id] < deliveredAt[a.msg.id] {
						out = append(out, vfVerdict{"C17/tran-order-violated", fmt.Sprintf("tran %d: id %d (prio %d) sent before id %d (prio %d) but delivered after it",
							a.msg.tran, a.msg.id, a.msg.prio, b.msg.id, b.msg.prio)})
					}
					if b.msg.prio > a.msg.prio {
						stats["later_msg_higher_prio_pairs"]++
					}
				}
			}
		}
	}
	// priority among the definitely present, definitely oldest-of-transaction messages; occupancy
	inOrder := true
	lastRet := int64(-1)
	for k, g := range gets {
		x := puts[g.got]
		if x.ret < lastRet {
			inOrder = false
		}
		lastRet = x.ret
		present := 0
		cands := 0
		for id, y := range puts {
			dk := deliveredAt[id]
			if dk < k || y.ret >= g.call {
				continue // already delivered, or not certainly queued when this Get began
			}
			present++ // includes the message delivered by this very Get if it was certainly queued
			if id == g.got {
				cands++
				continue
			}
			oldest := true
			for _, z := range byTran[y.msg.tran] {
				if z.msg.id == id {
					continue
				}
				if deliveredAt[z.msg.id] < k || z.call > y.ret {
					continue // gone before this Get, or certainly sent after y
				}
				oldest = false
				break
			}
			if !oldest {
				continue
			}
			cands++
			if y.msg.prio > x.msg.prio {
				out = append(out, vfVerdict{"C17/priority-violated", fmt.Sprintf("get #%d delivered id %d (prio %d tran %d) while id %d (prio %d tran %d), the oldest of its transaction, was queued",
					k, x.msg.id, x.msg.prio, x.msg.tran, id, y.msg.prio, y.msg.tran)})
			}
		}
		if cands >= 2 {
			stats["gets_with_choice"]++
		}
		if present > vfCap {
			out = append(out, vfVerdict{"C17/capacity-exceeded", fmt.Sprintf("%d messages were certainly queued when get #%d was called (capacity %d)", present, k, vfCap)})
		}
		if present == vfCap {
			stats["gets_on_full_queue"]++
		}
		if present > stats["max_occupancy"] {
			stats["max_occupancy"] = present
		}
		if g.call < x.call {
			stats["gets_waiting_on_empty"]++ // the Get was called before its message was even sent
		}
	}
	if !inOrder {
		stats["reordered_histories"] = 1
	}
	// puts that certainly waited for room: queue certainly full at a get, and the put returned only after that get began
	for _, o := range all {
		if !o.put {
			continue
		}
		for _, p2 := range all {
			if p2.put && p2.client != o.client && p2.call < o.ret && o.call < p2.ret {
				stats["overlapping_put_pairs"]++
			}
		}
	}
	return out, stats
}

func vfPorcupine(all []vfOp, sp vfSpec) porcupine.CheckResult {
	ops := make([]porcupine.Operation, 0, len(all))
	for _, o := range all {
		if o.put {
			ops = append(ops, porcupine.Operation{ClientId: o.client, Input: vfPutIn{o.msg}, Call: o.call, Output: nil, Return: o.ret})
		} else {
			ops = append(ops, porcupine.Operation{ClientId: o.client, Input: vfGetIn{}, Call: o.call, Output: o.got, Return: o.ret})
		}
	}
	return porcupine.CheckOperationsTimeout(vfModel(sp), ops, 5*time.Second)
}

func vfHistStrings(all []vfOp) []string {
	l := make([]string, len(all))
	for i, o := range all {
		l[i] = o.String()
	}
	return l
}

func vfHistHash(all []vfOp) uint64 {
	// content of the case: what each client sent, in its order, and the order of delivery
	var sb strings.Builder
	per := map[int][]string{}
	var clients []int
	for _, o := range all {
		if _, ok := per[o.client]; !ok {
			clients = append(clients, o.client)
		}
		if o.put {
			per[o.client] = append(per[o.client], fmt.Sprintf("p%d.%d.%d", o.msg.id, o.msg.prio, o.msg.tran))
		} else {
			per[o.client] = append(per[o.client], fmt.Sprintf("g%d", o.got))
		}
	}
	sort.Ints(clients)
	for _, c := range clients {
		fmt.Fprintf(&sb, "%d:%s;", c, strings.Join(per[c], ","))
	}
	return vk.Hash64(sb.String())
}

func TestVerifC17(t *testing.T) {
	rep := vk.NewReport("C17",
		"a case is one concurrent history on a fresh real PriorityQueue: 1-8 producer goroutines put 4-29 messages (priorities 0-3, transaction ids "+
			"shared or owned, patterns random/checker-like/rising/owned), one consumer gets until a final sentinel; producers burst, yield or wait for a drained "+
			"queue, the consumer is fast, slow (waits for a fill level up to the capacity) or mixed; GOMAXPROCS varies. Non-trivial = at least one Get had two or more "+
			"certainly-queued eligible messages to choose from, or the delivery order differs from the send order. Distinct by (messages per client in order, delivery order)",
		"one atomic counter stamps call/return, so 'A returned before B was called' is certain; the single consumer is one goroutine",
		"porcupine v1.3.0 is trusted as the linearizability checker; its timeouts are counted, never reported as violations",
		"capacity 8 is the documented bufSize of the checker queue")
	defer rep.Finish()
	n := vk.N(6000, 300000)
	procsChoices := []int{1, 2, 3, 4, 8, 16}
	oldProcs := runtime.GOMAXPROCS(0)
	defer runtime.GOMAXPROCS(oldProcs)
	for i := 0; i < n; i++ {
		r := vk.RandFor(17, i)
		if i%20 == 0 {
			pc := procsChoices[(i/20+vk.Shard())%len(procsChoices)]
			if pc > oldProcs {
				pc = oldProcs
			}
			runtime.GOMAXPROCS(pc)
		}
		p := vfGenPlan(r)
		p.procs = runtime.GOMAXPROCS(0)
		rep.Case("history %d seed=%d shard=%d producers=%d msgs=%d pattern=%s cons=%d fill=%d procs=%d", i, vk.Seed(), vk.Shard(), p.nprod, p.total, p.pattern, p.consMode, p.fill, p.procs)
		all := vfRun(p, r, rep)
		rep.Count("histories", 1)
		rep.Count("operations", len(all))
		rep.Seen("pattern", p.pattern)
		rep.Seen("gomaxprocs", fmt.Sprint(p.procs))
		rep.Seen("producers", fmt.Sprint(p.nprod))
		key := fmt.Sprintf("seed=%d shard=%d/%d history=%d", vk.Seed(), vk.Shard(), vk.NShards(), i)

		verdicts, stats := vfLinear(all, rep)
		for k, v := range stats {
			if k == "max_occupancy" {
				rep.Max(k, v)
			} else {
				rep.Count(k, v)
			}
		}
		rep.Eval(vfHistHash(all), stats["gets_with_choice"] > 0 || stats["reordered_histories"] > 0)
		seen := map[string]bool{}
		for _, v := range verdicts {
			if seen[v.class] {
				continue
			}
			seen[v.class] = true
			rep.Violate(v.class, key+" "+v.why, map[string]any{"why": v.why, "plan": fmt.Sprintf("%+v", p), "history": vfHistStrings(all)})
		}

		switch vfPorcupine(all, vfSpecs[0]) {
		case porcupine.Ok:
			rep.Count("porcupine_ok", 1)
		case porcupine.Unknown:
			rep.Count("porcupine_timeout", 1) // inconclusive for this history, never a violation
		case porcupine.Illegal:
			rep.Count("porcupine_illegal", 1)
			sub := "exactly-once"
			for _, sp := range vfSpecs[1:] {
				res := vfPorcupine(all, sp)
				if res == porcupine.Ok {
					sub = sp.description
					break
				} else if res == porcupine.Unknown {
					sub = "unclassified"
					break
				}
			}
			rep.Violate("C17/not-linearizable/"+sub, key, map[string]any{
				"relaxation_that_is_legal": sub, "plan": fmt.Sprintf("%+v", p), "history": vfHistStrings(all)})
		}
		if rep.WantSample() && stats["gets_with_choice"] > 1 {
			rep.Sample(map[string]any{"history": i, "pattern": p.pattern, "ops": vfHistStrings(all)})
		}
	}
}
