import json,sys
props={json.loads(l)['id']:json.loads(l) for l in open('/verif/properties.jsonl')}
pid=sys.argv[1]
p=props[pid]
print(f"""You are testing how well a verification effort can detect regressions in gSuneido (github.com/apmckinlay/gsuneido), the Go implementation of the Suneido language and its embedded database. You have your own scratch git worktree of the repository at /tmp/wt/{pid} (work ONLY there; do not touch /repo or /verif, do not read anything under /verif).

Property {pid}: "{p['title']}"
Statement: {p['statement']}
It must hold over: {p['quantifier']['text']}
Code anchors (where the behaviour lives): {json.dumps(p.get('anchors'))[:1500]}

Your task: produce TWO different, independent changes (call them m1 and m2) to the repository's NON-test Go source, each of which BREAKS this property while the tree still compiles and the repository's existing tests still pass. Each change should be the kind of subtle regression a real developer could introduce (an off-by-one, a dropped branch or lock, a skipped flush, a wrong comparison, a missing registration, two sites that each look fine alone), and it must need something SPECIFIC to manifest: a particular interleaving, a crash or fault at a particular point, a multi-step sequence of operations, an unusual input or boundary value -- NOT something that ordinary use or the first simple call would expose at once. Do not write changes that are only visible through internal/unexported state; the breakage must be observable in the behaviour the property statement talks about. Keep each change small (a few lines, ideally one or two sites). m1 and m2 should break the property in different ways / different code locations.

For each change also write a demonstration: a Go test file (package-internal or external `_test.go`, name the test function TestDemo<Something>) that FAILS with the change applied and PASSES on the unchanged tree, deterministically (loop/retry inside the test if the failure needs an interleaving; it should fail reliably, say >= 9 of 10 runs, within ~60 s).

Mechanics:
- Every shell command: `cd /tmp/wt/{pid} && export GOFLAGS=-mod=mod GOPROXY=off` (do NOT set GOSUMDB or GOTOOLCHAIN; there is no network; nothing can be downloaded). `go build ./...` and `go test -vet=off -count=1 ./<pkg>/...` work as they are (the git-ignored TLS files dbms/server.crt|key are already in place; do not add them to a patch).
- Read the code first (start from the anchors above), pick the sites, make change m1 in the worktree, confirm `go build ./...` passes and that the existing tests still pass with it: run `TMPDIR=/tmp/wt/{pid}/tmpdir go test -short -vet=off -count=1 ./...` (create that TMPDIR first; with -short the whole suite takes 2-4 minutes; run it once per change, in the foreground, not repeatedly) plus the NON-short tests of the package(s) you touched if they are quick (do NOT run the non-short tests of package db19 itself: they build a 2 GB database and take many minutes; tests that need a missing `suneido.db` file fail on the clean tree too and do not count). The machine is shared with other jobs: keep CPU use modest, never start more than one `go test` at a time, do not loop over the full suite. Confirm your demo test fails with the change; then revert and confirm the demo passes without it.
- Deliverables, written to /tmp/wt/{pid}/OUT/: m1.diff and m2.diff (output of `git diff` for the source change ONLY, without the demo test, applicable with `git apply` to a clean checkout), m1_demo_test.go and m2_demo_test.go (each starting with a comment line `// place in: <package dir relative to repo root>`), and notes.md saying for each: which sites changed and why it breaks the property, exactly what it needs to manifest (the interleaving / sequence / input), the commands you ran and their results (demo fails with / passes without, existing tests pass with). Leave the worktree clean (git checkout -- . ; remove stray test files) except for the OUT directory when you finish.
- If a candidate change makes an existing test fail, pick a different site rather than editing tests. Never modify existing test files.

Final answer: a short summary of m1 and m2 (site, effect, what it needs to manifest) and the verification results.""")
